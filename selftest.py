#!/venv/bin/python
"""selftest.py determinism [props...] [--n N]  /  selftest.py mutants [ids...] [--jobs J]

determinism: every sampled run index is executed in three different fresh interpreters
(different PYTHONHASHSEED, different grouping/order, different process counts) and all
trace digests must agree.

mutants: apply each patch under /verif/seeded/*/patch.diff (and /verif/mutants/*.diff) to a
scratch copy of /repo/src (VERIF_REPO_SRC) and report whether the owning property's quick
check exits 1.  Not part of any registered command.
"""
from __future__ import annotations

import json
import os
import re
import shutil
import subprocess
import sys
import tempfile
import time
from concurrent.futures import ThreadPoolExecutor

HERE = os.path.dirname(os.path.abspath(__file__))
PY = sys.executable
ALL = ["C01", "C02", "C03", "C04", "C05", "C06", "C07", "C08", "C09", "C10", "C11", "C12", "C13", "C14", "C15", "C18", "C19"]


def digests(prop: str, tier: str, indices: list[int], hashseed: int) -> dict[int, str]:
    env = dict(os.environ, PYTHONHASHSEED=str(hashseed))
    p = subprocess.run(
        [PY, os.path.join(HERE, "check.py"), prop, "--tier", tier, "--digests", ",".join(map(str, indices))],
        capture_output=True,
        text=True,
        env=env,
        timeout=900,
    )
    out = {}
    for line in p.stdout.splitlines():
        m = re.match(r"DIGEST-OF (\d+) (\w+)", line)
        if m:
            out[int(m.group(1))] = m.group(2)
    if len(out) != len(indices):
        raise RuntimeError(f"digest subprocess failed for {prop}: rc={p.returncode}\n{p.stdout[-500:]}\n{p.stderr[-1500:]}")
    return out


def determinism(props: list[str], n: int) -> int:
    bad_total = 0
    for prop in props:
        t0 = time.time()
        idx = list(range(n))
        groups_a = [idx[i::16] for i in range(16)]
        groups_b = [idx[i * (n // 5 + 1) : (i + 1) * (n // 5 + 1)] for i in range(5)]
        groups_c = [list(reversed(idx[i::11])) for i in range(11)]
        res: list[dict[int, str]] = [{}, {}, {}]
        with ThreadPoolExecutor(max_workers=16) as ex:
            futs = []
            for gi, (groups, hs) in enumerate(((groups_a, 1), (groups_b, 4242), (groups_c, 987654))):
                for g in groups:
                    if g:
                        futs.append((gi, ex.submit(digests, prop, "quick", g, hs + len(futs))))
            for gi, f in futs:
                res[gi].update(f.result())
        bad = [i for i in idx if not (res[0][i] == res[1][i] == res[2][i])]
        bad_total += len(bad)
        print(f"determinism {prop}: {n} indices x 3 interpreters, mismatches={bad[:10]} ({time.time() - t0:.1f}s)")
    return 1 if bad_total else 0


def run_check_on(src: str, prop: str, runs: int | None = None) -> tuple[int, str]:
    env = dict(os.environ, VERIF_REPO_SRC=src, VERIF_REPLAY_DIR=os.path.join(os.path.dirname(src), "replays"))
    cmd = [PY, os.path.join(HERE, "check.py"), prop, "--no-evidence"]
    if runs:
        cmd += ["--runs", str(runs)]
    p = subprocess.run(cmd, capture_output=True, text=True, env=env, timeout=1200)
    return p.returncode, p.stdout[-3000:] + p.stderr[-1500:]


def _one_mutant(d: str) -> tuple:
    root = os.path.join(HERE, "seeded")
    meta_p = os.path.join(root, d, "meta.json")
    patch = os.path.join(root, d, "patch.diff")
    meta = json.load(open(meta_p))
    props = meta.get("properties") or [meta["property"]]
    tmp = tempfile.mkdtemp(prefix="verif_mut_")
    try:
        shutil.copytree("/repo/src", os.path.join(tmp, "src"))
        r = subprocess.run(["patch", "-p1", "-d", tmp, "-i", patch], capture_output=True, text=True)
        if r.returncode != 0:
            return (d, props, "PATCH-FAILED", r.stdout[-300:])
        caught = []
        for prop in props:
            rc, out = run_check_on(os.path.join(tmp, "src"), prop)
            rules = sorted(set(re.findall(r"^\s+(C\d+\.\w+) \[", out, re.M)))
            caught.append((prop, rc, rules))
        return (d, props, "CAUGHT" if any(rc == 1 for _, rc, _ in caught) else "MISSED", caught)
    finally:
        shutil.rmtree(tmp, ignore_errors=True)


def mutants(ids: list[str], jobs: int = 1) -> int:
    root = os.path.join(HERE, "seeded")
    names = []
    for d in sorted(os.listdir(root)) if os.path.isdir(root) else []:
        if ids and d not in ids:
            continue
        if os.path.exists(os.path.join(root, d, "meta.json")) and os.path.exists(os.path.join(root, d, "patch.diff")):
            if json.load(open(os.path.join(root, d, "meta.json"))).get("obsolete") and not ids:
                continue  # made harmless by a later fix: to /repo (see its meta.json)
            names.append(d)
    with ThreadPoolExecutor(max_workers=max(1, jobs)) as ex:
        rows = []
        for row in ex.map(_one_mutant, names):
            print(row, flush=True)
            rows.append(row)
    return 0 if all(r[2] == "CAUGHT" for r in rows) else 1


if __name__ == "__main__":
    if len(sys.argv) < 2:
        print(__doc__)
        sys.exit(2)
    mode = sys.argv[1]
    rest = sys.argv[2:]
    n = 400
    if "--n" in rest:
        i = rest.index("--n")
        n = int(rest[i + 1])
        del rest[i : i + 2]
    if mode == "determinism":
        sys.exit(determinism(rest or ALL, n))
    elif mode == "mutants":
        jobs = 1
        if "--jobs" in rest:
            i = rest.index("--jobs")
            jobs = int(rest[i + 1])
            del rest[i : i + 2]
        sys.exit(mutants(rest, jobs))
