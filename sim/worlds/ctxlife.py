"""World W1 "ctxlife": context blocks, teardown callbacks, current_context, lifecycle.

Serves C01 (teardown: once, LIFO, one at a time, exception plumbing), C12
(current_context stack discipline) and C13 (lifecycle state x operation matrix).

A plan is a recursive tree of context *blocks*.  Everything the system under test does
is real asphalt code; the only generated parts are the user's block bodies, callbacks
and the instants at which faults (exceptions, cancellation) land.
"""
from __future__ import annotations

import random
import sys
import types
from contextlib import AsyncExitStack
from typing import Any

import anyio
from anyio import CancelScope, create_task_group

from asphalt.core import (
    Context,
    NoCurrentContext,
    ResourceConflict,
    ResourceNotFound,
    context_teardown,
    current_context,
)
from asphalt.core import add_resource as mod_add_resource
from asphalt.core import add_teardown_callback as mod_add_teardown_callback

from ..core import Sim, run_sim
from .common import (
    Ambient,
    Tagger,
    contains_cancel,
    describe,
    group_nodes,
    is_cancel,
    is_ordinary,
    leaves,
    pick,
    rpause,
)

if sys.version_info < (3, 11):  # pragma: no cover
    from exceptiongroup import BaseExceptionGroup

NAME = "ctxlife"
PROPS = ("C01", "C12", "C13")


class Res:
    def __init__(self, tag: str) -> None:
        self.tag = tag


class Res2:
    pass


@types.coroutine
def _gen_coro(coro: Any):  # type: ignore[no-untyped-def]
    """A generator-based coroutine (what @types.coroutine / old-style libraries hand out):
    awaitable, although its type is the plain generator type."""
    return (yield from coro)


def _plain_gen():  # type: ignore[no-untyped-def]
    """A plain generator object: NOT awaitable, although of the very same type."""
    yield None


class Aw:
    """A non-coroutine awaitable wrapping a coroutine."""

    def __init__(self, coro: Any) -> None:
        self.coro = coro

    def __await__(self):  # type: ignore[no-untyped-def]
        return self.coro.__await__()


@context_teardown
async def _shared_teardown_gen(h: Any, spec: dict, cid: str):  # type: ignore[no-untyped-def]
    """ONE decorated function started many times (like the start() of a component class
    with several instances): every call owns its own generator."""
    sim = h.sim
    await h.pre_steps(spec, cid)
    exc = yield
    h._cb_start(spec, cid, (exc,))
    try:
        await h.cb_steps(spec, cid, (exc,))
    except BaseException as e:
        sim.log("cb_end", cb=spec["id"], ctx=cid, how="cancel" if is_cancel(e) else "raise", exc=describe(e))
        raise
    else:
        sim.log("cb_end", cb=spec["id"], ctx=cid, how="return", exc=None)


class FalsyContext(Context):
    """A Context subclass that happens to be falsy (it has a length - of 0): still a perfectly
    good context.  Anything that decides "is there a context / a parent" by truthiness
    instead of `is None` goes wrong for it."""

    def __len__(self) -> int:
        return 0


def _mk(falsy: Any, *args: Any) -> Context:
    return FalsyContext(*args) if falsy else Context(*args)


def _mentions_corruption(e: BaseException) -> bool:
    """A RuntimeError about the open child is reported - raised itself or chained/grouped."""
    seen: set = set()
    stack = [e]
    while stack:
        x = stack.pop()
        if x is None or id(x) in seen:
            continue
        seen.add(id(x))
        if isinstance(x, RuntimeError) and "child context" in str(x):
            return True
        if isinstance(x, BaseExceptionGroup):
            stack.extend(x.exceptions)
        stack.append(x.__cause__)
        stack.append(x.__context__)
    return False


# =============================================================================== harness
class H:
    def __init__(self, sim: Sim, plan: dict) -> None:
        self.sim = sim
        self.plan = plan
        self.tag = Tagger()
        self.ids: dict[int, str] = {}
        self.keep: list[Any] = []
        self.ctxs: dict[str, Context] = {}
        self.scope: CancelScope | None = None
        self.nfresh = 0
        self.callables: dict[str, Any] = {}
        self.bg_tg: Any = None
        self.leaked: dict[str, list] = {}
        self.probe_every = bool(plan.get("probe_every"))
        self.ctx_exited: dict[str, bool] = {}

    # ---- identity helpers
    def know(self, ctx: Context, cid: str) -> None:
        self.ids[id(ctx)] = cid
        self.keep.append(ctx)
        self.ctxs[cid] = ctx

    def cid(self, ctx: Context | None) -> str | None:
        if ctx is None:
            return None
        return self.ids.get(id(ctx), "?")

    def cur(self) -> str | None:
        try:
            return self.cid(current_context())
        except NoCurrentContext:
            return None

    def at(self, exp: str | None, where: str) -> None:
        self.sim.log("at", cur=self.cur(), exp=exp, where=where)

    # ---- blocks
    async def run_block(self, b: dict, exp: str | None) -> None:
        sim = self.sim
        cid = b["id"]
        pmode = b.get("parent", "implicit")
        if pmode == "explicit" and exp is not None and exp in self.ctxs:
            ctx = _mk(b.get("falsy"), self.ctxs[exp])
        else:
            ctx = _mk(b.get("falsy"))
        self.know(ctx, cid)
        if b.get("via") and b.get("untouched"):
            # nothing at all is asked of the new context before it is entered elsewhere: its
            # parent was decided when it was created, not when somebody first looks
            sim.log("ctx_new", ctx=cid, parent=exp, exp=exp, closed=False, untouched=True)
        else:
            sim.log("ctx_new", ctx=cid, parent=self.cid(ctx.parent), exp=exp, closed=ctx.closed)
        if b.get("pre_ops"):
            await self.ops(b["pre_ops"], cid)
        if b.get("via"):
            # entered later, from inside another context: the parent stays the context that
            # was current at creation, and leaving restores the intermediate context
            via = _mk(b.get("falsy"))
            self.know(via, b["via"])
            async with via:
                self.at(b["via"], "via_enter")
                await self._enter_block(b, ctx, cid, exp, b["via"])
                self.at(b["via"], "via_after_child")
            self.at(exp, "via_exit")
            return
        await self._enter_block(b, ctx, cid, exp, exp)

    async def _enter_block(self, b: dict, ctx: Context, cid: str, exp: Any, outer: Any) -> None:
        sim = self.sim
        if b.get("via"):
            sim.log("parent_at_entry", ctx=cid, parent=self.cid(ctx.parent), exp=exp)
        try:
            async with ctx as entered:
                sim.log(
                    "ctx_enter", ctx=cid, cur=self.cur(), closed=ctx.closed, same=entered is ctx
                )
                try:
                    await self.acts(b.get("body", ()), cid)
                    end = b.get("end") or {}
                    if end.get("how") == "raise":
                        e = self.tag.make(end["exc"])
                        sim.log("raise", where="body", ctx=cid, exc=describe(e))
                        raise e
                except BaseException as e:
                    sim.log(
                        "body_end",
                        ctx=cid,
                        how="cancel" if is_cancel(e) else "raise",
                        exc=describe(e),
                        closed=ctx.closed,
                    )
                    raise
                else:
                    sim.log("body_end", ctx=cid, how="return", exc=None, closed=ctx.closed)
        except BaseException as e:
            sim.log("ctx_exit", ctx=cid, exc=describe(e), closed=ctx.closed, cur=self.cur(), exp=outer)
            self.ctx_exited[cid] = True
            if cid in self.leaked:
                sim.log("leak_exit", ctx=cid, reported=_mentions_corruption(e), exc=describe(e))
                await self._close_leaked(cid)
            if b.get("post_ops"):
                await self.ops(b["post_ops"], cid)
            if contains_cancel(e) or not b.get("catch", True) or sim.aborting:
                raise
        else:
            sim.log("ctx_exit", ctx=cid, exc=None, closed=ctx.closed, cur=self.cur(), exp=outer)
            self.ctx_exited[cid] = True
            if cid in self.leaked:
                sim.log("leak_exit", ctx=cid, reported=False, exc=None)
                await self._close_leaked(cid)
            if b.get("post_ops"):
                await self.ops(b["post_ops"], cid)

    async def _close_leaked(self, cid: str) -> None:
        for c in reversed(self.leaked.pop(cid, [])):
            with CancelScope(shield=True):
                try:
                    await c.__aexit__(None, None, None)
                except BaseException as e:  # noqa: BLE001
                    self.sim.log("note", what="leaked_child_exit", exc=describe(e))

    async def run_block_exitstack(self, b: dict, exp: str | None) -> None:
        """The context is managed by an AsyncExitStack whose *later* exit callback raises:
        that exception is what ends the block from the context's point of view."""
        sim = self.sim
        cid = b["id"]
        ctx = _mk(b.get("falsy"))
        self.know(ctx, cid)
        sim.log("ctx_new", ctx=cid, parent=self.cid(ctx.parent), exp=exp, closed=ctx.closed)
        cls = (b.get("end") or {}).get("exc") or "SimError"

        def raiser() -> None:
            e = self.tag.make(cls)
            sim.log("raise", where="exitstack", ctx=cid, exc=describe(e))
            sim.log("body_end", ctx=cid, how="raise", exc=describe(e), closed=ctx.closed)
            raise e

        try:
            async with AsyncExitStack() as st:
                await st.enter_async_context(ctx)
                st.callback(raiser)
                sim.log("ctx_enter", ctx=cid, cur=self.cur(), closed=ctx.closed, same=True)
                try:
                    await self.acts(b.get("body", ()), cid)
                except BaseException as e:
                    # an exception from the body pre-empts the raiser scenario
                    sim.log("note", what="exitstack_body_exc", exc=describe(e))
                    raise
        except BaseException as e:
            sim.log("ctx_exit", ctx=cid, exc=describe(e), closed=ctx.closed, cur=self.cur(), exp=exp)
            if contains_cancel(e) or sim.aborting:
                raise
        else:
            sim.log("ctx_exit", ctx=cid, exc=None, closed=ctx.closed, cur=self.cur(), exp=exp)

    # ---- actions
    async def acts(self, acts: Any, exp: str | None) -> None:
        sim = self.sim
        for a in acts:
            op = a[0]
            if op == "p":
                await sim.pause(a[1], a[2])
            elif op == "reg":
                await self.register(a[1])
            elif op == "child":
                await self.run_block(a[1], exp)
            elif op == "par":
                async with create_task_group() as tg:
                    for br in a[1]:
                        tg.start_soon(self.branch, br, exp, name="w:" + br["name"])
            elif op == "ops":
                await self.ops(a[1], a[2] if len(a) > 2 and a[2] else exp)
            elif op == "bg":
                # a task spawned here through a task group opened *outside* every block: it
                # keeps the context that was current where it was spawned, even after that
                # context has been left and closed by the spawner
                if self.bg_tg is not None:
                    self.bg_tg.start_soon(self.branch, a[1], exp, name="w:" + a[1]["name"])
            elif op == "svc":
                await self.svc(a[1], exp)
            elif op == "corrupt":
                await self.corrupt(a[1])
            elif op == "foreign_exit":
                await self.foreign_exit(a[1], exp)
            elif op == "race":
                self.race_prep(a[1], exp)
            elif op == "tfcrash":
                await self.tfcrash(a[1], exp)
            elif op == "bglookup":
                await self.bglookup(a[1], exp)
            elif op == "outliving":
                await self.outliving_modops(a[1], exp)
            elif op == "raise":
                e = self.tag.make(a[1])
                sim.log("raise", where="act", ctx=exp, exc=describe(e))
                raise e
            if self.probe_every and op != "corrupt":
                self.at(exp, op)

    async def branch(self, br: dict, exp: str | None) -> None:
        self.at(exp, "branch_start")
        corrupting = any(a[0] == "corrupt" for a in br.get("body", ())) or br.get("name") == "leak"
        try:
            await self.acts(br.get("body", ()), exp)
        finally:
            if not corrupting:  # a deliberately corrupted context stack stays corrupted
                self.at(exp, "branch_end")

    async def svc(self, spec: dict, exp: str | None) -> None:
        sim = self.sim
        name = spec["name"]
        owner = current_context()

        async def body() -> None:
            c = current_context()
            fresh = id(c) not in self.ids
            fid = f"{name}.ctx"
            if fresh:
                self.know(c, fid)
            sim.log(
                "task_ctx",
                task=name,
                fresh=fresh,
                parent=self.cid(c.parent),
                exp_parent=self.cid(owner),
            )
            try:
                await self.acts(spec.get("body", ()), fid)
                self.at(fid, "svc_end")
                if spec.get("forever"):
                    await anyio.sleep(1e6)
            except BaseException as e:
                if not is_cancel(e):
                    sim.log("svc_escape", task=name, exc=describe(e))
                # the task's own context is left by this very exception: callbacks registered
                # on it with pass_exception get it (a cancellation, when the task is stopped)
                sim.log("body_end", ctx=fid, how="cancel" if is_cancel(e) else "raise", exc=describe(e), closed=c.closed)
                raise
            else:
                sim.log("body_end", ctx=fid, how="return", exc=None, closed=c.closed)

        await owner.start_service_task(body, name, teardown_action=spec.get("action", "cancel"))

    async def outsider(self, pauses: list) -> None:
        for p in pauses:
            await self.sim.pause(p[1], p[2])
            self.at(None, "outsider")

    async def bglookup(self, spec: dict, exp: str | None) -> None:
        """A task living outside the block is in the middle of a (slow, uninterruptible)
        lookup in the block's context when the block is left."""
        ctx = self.ctxs.get(exp) if exp else None
        if ctx is None or self.bg_tg is None:
            return
        sim = self.sim
        nm = "bg_" + spec["id"]

        async def slow() -> Res2:
            with CancelScope(shield=True):
                await sim.pause(0, spec.get("dur", 1.0))
            return Res2()

        ctx.add_resource_factory(slow, nm, types=[Res2])

        async def looker() -> None:
            try:
                await ctx.get_resource(Res2, nm)
            except BaseException as e:  # noqa: BLE001
                if is_cancel(e):
                    raise

        self.bg_tg.start_soon(looker, name="w:bglookup_" + spec["id"])
        await sim.pause(*spec.get("gap", (1, 0.0)))

    async def tfcrash(self, spec: dict, exp: str | None) -> None:
        """A task of a task factory crashes; the factory's exception handler is called in
        that task once the task's own context has been left - so what is current there is
        again what the task started out with: the context it was spawned from."""
        sim = self.sim
        if exp is None:
            return
        h = self
        done = anyio.Event()

        def handler(exc: Exception) -> bool:
            h.at(exp, "task_exception_handler")
            done.set()
            return True

        factory = await current_context().start_background_task_factory(exception_handler=handler)

        async def crashing() -> None:
            c = current_context()
            h.know(c, spec["cid"])
            h.at(spec["cid"], "factory_task")
            await sim.pause(*spec.get("gap", (0, 0.0)))
            e = h.tag.make("SimError")
            sim.fault("task_crash")
            raise e

        factory.start_task_soon(crashing, spec["cid"] + "_task")
        await done.wait()

    def race_prep(self, spec: dict, cid: str | None) -> None:
        """Registers a slow async factory on the (open) current context and a teardown
        callback that makes two tasks look its product up at the same time: lookups are
        allowed during teardown, racing or not."""
        ctx = self.ctxs.get(cid) if cid else None
        if ctx is None:
            return
        sim = self.sim
        nm = "race_" + spec["id"]

        async def slow() -> Res2:
            await sim.pause(1, 0.25)
            return Res2()

        ctx.add_resource_factory(slow, nm, types=[Res2])
        h = self

        async def racer() -> None:
            await h._race(ctx, cid, nm)

        ctx.add_teardown_callback(racer)

    async def _race(self, ctx: Any, cid: str, nm: str) -> None:
        sim = self.sim
        res: dict[str, str] = {}

        async def one(k: str) -> None:
            try:
                v = await ctx.get_resource(Res2, nm)
                res[k] = "ok" if isinstance(v, Res2) else f"value:{type(v).__name__}"
            except BaseException as e:  # noqa: BLE001
                if is_cancel(e):
                    res[k] = "cancelled"
                    raise
                res[k] = type(e).__name__

        try:
            async with create_task_group() as tg:
                tg.start_soon(one, "a", name="w:race_a")
                tg.start_soon(one, "b", name="w:race_b")
        finally:
            sim.log("race_get", ctx=cid, res=[res.get("a"), res.get("b")], closed=ctx.closed)

    async def foreign_exit(self, spec: dict, exp: str | None) -> None:
        """Misuse: a context entered by one task is left by another.  Whatever the library
        makes of that (it raises), the task that attempted the exit must keep its *own*
        current context - tasks never disturb each other's."""
        sim = self.sim
        if exp is None:
            return
        entered = anyio.Event()
        done = anyio.Event()
        box: dict[str, Any] = {}
        h = self

        async def a() -> None:
            # (the owner entered it from inside a context of its own: what was current
            # there before the entry differs from what is current in the other task)
            async with Context() as mid:
                h.know(mid, spec["cid"] + "m")
                c = Context()
                h.know(c, spec["cid"])
                await c.__aenter__()
                box["c"] = c
                entered.set()
                await done.wait()

        async with create_task_group() as tg:
            tg.start_soon(a, name="w:foreign_owner")
            try:
                await entered.wait()
                await sim.pause(*spec.get("gap", (0, 0.0)))
                before = self.cur()
                res = "ok"
                try:
                    await box["c"].__aexit__(None, None, None)
                except BaseException as e:
                    if contains_cancel(e):
                        raise
                    res = type(e).__name__
                sim.log("foreign_exit", before=before, after=self.cur(), exp=exp, res=res, closed=box["c"].closed)
            finally:
                done.set()

    async def corrupt_explicit(self, spec: dict) -> None:
        """The open child names its parent explicitly (`Context(parent)`) and is entered by a
        task in which that parent is not the current context: still an open child of it."""
        sim = self.sim
        p_ready = anyio.Event()
        entered = anyio.Event()
        release = anyio.Event()
        box: dict[str, Any] = {}
        h = self

        async def other() -> None:
            # spawned before p exists: whatever is current here, it is not p
            await p_ready.wait()
            c = Context(box["p"])
            h.know(c, spec["cid"])
            sim.log("corrupt_begin", p=spec["pid"], c=spec["cid"], parent=h.cid(c.parent), root=box["p"].parent is None, how="explicit_foreign")
            async with c:
                entered.set()
                await release.wait()

        async with create_task_group() as tg:
            tg.start_soon(other, name="w:explicit_child")
            p = _mk(spec.get("falsy_parent"))
            self.know(p, spec["pid"])
            await p.__aenter__()
            box["p"] = p
            p_ready.set()
            try:
                await entered.wait()
            except BaseException as e:
                release.set()
                with CancelScope(shield=True):
                    try:
                        await p.__aexit__(type(e), e, e.__traceback__)
                    except BaseException:  # noqa: BLE001
                        pass
                raise
            try:
                await p.__aexit__(None, None, None)
            except BaseException as e:
                sim.log(
                    "corrupt_exit", p=spec["pid"], exc=describe(e), cls=type(e).__name__, closed=p.closed,
                    root=p.parent is None, how="explicit_foreign", reported=_mentions_corruption(e),
                )
                release.set()
                if contains_cancel(e):
                    raise
            else:
                sim.log("corrupt_exit", p=spec["pid"], exc=None, cls=None, closed=p.closed, root=p.parent is None, how="explicit_foreign", reported=False)
                release.set()

    async def corrupt_orphan(self, spec: dict) -> None:
        """The open child was entered by a helper task that has ended; nobody holds a
        reference to it any more and a garbage collection has run: it is still an open
        child of its parent."""
        import gc

        sim = self.sim
        p = _mk(spec.get("falsy_parent"))
        self.know(p, spec["pid"])
        await p.__aenter__()
        sim.log("corrupt_begin", p=spec["pid"], c=spec["cid"], parent=spec["pid"], root=p.parent is None, how="orphan")

        async def helper() -> None:
            c = Context()
            await c.__aenter__()

        async with create_task_group() as tg:
            tg.start_soon(helper, name="w:orphan_owner")
        gc.collect()
        try:
            await p.__aexit__(None, None, None)
        except BaseException as e:
            sim.log(
                "corrupt_exit", p=spec["pid"], exc=describe(e), cls=type(e).__name__, closed=p.closed,
                root=p.parent is None, how="orphan", reported=_mentions_corruption(e),
            )
            if contains_cancel(e):
                raise
        else:
            sim.log("corrupt_exit", p=spec["pid"], exc=None, cls=None, closed=p.closed, root=p.parent is None, how="orphan", reported=False)

    async def corrupt_mid(self, spec: dict) -> None:
        """The parent's block is left while a child - entered and left in *another task* - is
        in the middle of its teardown (suspended inside an awaiting teardown callback): the
        child has not finished closing, so it is still an open child."""
        sim = self.sim
        in_td = anyio.Event()
        release = anyio.Event()
        child_done = anyio.Event()
        h = self

        async def other() -> None:
            c = Context()  # created in a task spawned inside p: p is its parent
            h.know(c, spec["cid"])
            sim.log("corrupt_begin", p=spec["pid"], c=spec["cid"], parent=h.cid(c.parent), root=p.parent is None, how="mid_teardown")
            try:
                async with c:

                    async def slow_cb() -> None:
                        in_td.set()
                        with CancelScope(shield=True):
                            await release.wait()

                    c.add_teardown_callback(slow_cb)
                    await sim.pause(*spec.get("child_body", (0, 0.0)))
            finally:
                in_td.set()
                child_done.set()

        async with create_task_group() as tg:
            p = _mk(spec.get("falsy_parent"))
            self.know(p, spec["pid"])
            await p.__aenter__()
            tg.start_soon(other, name="w:mid_child")
            try:
                await in_td.wait()
                # meanwhile the parent sees a number of short-lived children come and go
                for _ in range(spec.get("churn", 0)):
                    async with Context():
                        pass
                await sim.pause(*spec.get("gap", (0, 0.0)))
            except BaseException as e:
                # the run is being cancelled: no experiment; close everything in order
                release.set()
                with CancelScope(shield=True):
                    await child_done.wait()
                    try:
                        await p.__aexit__(type(e), e, e.__traceback__)
                    except BaseException:  # noqa: BLE001
                        pass
                raise
            if child_done.is_set():
                release.set()
                await p.__aexit__(None, None, None)
                return
            try:
                await p.__aexit__(None, None, None)
            except BaseException as e:
                sim.log(
                    "corrupt_exit", p=spec["pid"], exc=describe(e), cls=type(e).__name__, closed=p.closed,
                    root=p.parent is None, how="mid_teardown", reported=_mentions_corruption(e),
                )
                release.set()
                if contains_cancel(e):
                    raise
            else:
                sim.log("corrupt_exit", p=spec["pid"], exc=None, cls=None, closed=p.closed, root=p.parent is None, how="mid_teardown", reported=False)
                release.set()

    async def corrupt(self, spec: dict) -> None:
        """Leave a context while a child context entered from it is still open - cleanly,
        with an exception, or with a cancellation in flight."""
        sim = self.sim
        how = spec.get("how", "clean")
        if how == "mid_teardown":
            await self.corrupt_mid(spec)
            return
        if how == "orphan":
            await self.corrupt_orphan(spec)
            return
        if how == "explicit_foreign":
            await self.corrupt_explicit(spec)
            return
        p = _mk(spec.get("falsy_parent"))
        self.know(p, spec["pid"])
        await p.__aenter__()
        c = Context()
        self.know(c, spec["cid"])
        await c.__aenter__()
        sim.log("corrupt_begin", p=spec["pid"], c=spec["cid"], parent=self.cid(c.parent), root=p.parent is None, how=how)
        try:
            if how == "clean":
                await p.__aexit__(None, None, None)
            else:
                try:
                    raise self.tag.make("SimError" if how == "exception" else "SimFatal")
                except BaseException as e:
                    suppressed = await p.__aexit__(type(e), e, e.__traceback__)
                    if not suppressed:
                        raise
        except BaseException as e:
            sim.log(
                "corrupt_exit",
                p=spec["pid"],
                exc=describe(e),
                cls=type(e).__name__,
                closed=p.closed,
                root=p.parent is None,
                how=how,
                reported=_mentions_corruption(e),
            )
            if contains_cancel(e):
                raise
        else:
            sim.log("corrupt_exit", p=spec["pid"], exc=None, cls=None, closed=p.closed, root=p.parent is None, how=how, reported=False)
        finally:
            with CancelScope(shield=True):
                try:
                    await c.__aexit__(None, None, None)
                except BaseException as e:  # noqa: BLE001
                    sim.log("note", what="corrupt_child_exit", exc=describe(e))

    # ---- lifecycle operations (C13)
    async def ops(self, ops: Any, cid: str | None) -> None:
        sim = self.sim
        if cid is None or cid not in self.ctxs:
            return
        ctx = self.ctxs[cid]
        for op in ops:
            before = dict(ctx.get_resources(Res))
            res: Any = "ok"
            extra: dict[str, Any] = {}
            try:
                if op == "add_resource":
                    self.nfresh += 1
                    name = f"o{self.nfresh}"
                    obj = Res(name)
                    ctx.add_resource(obj, name)
                    extra["visible"] = ctx.get_resource_nowait(Res, name) is obj
                elif op == "add_factory":
                    self.nfresh += 1
                    ctx.add_resource_factory(lambda: Res2(), f"f{self.nfresh}", types=[Res2])
                elif op == "get":
                    await ctx.get_resource(Res, "nonexistent_")
                elif op == "get_nowait":
                    ctx.get_resource_nowait(Res, "nonexistent_")
                elif op in ("get_existing", "get_nowait_existing"):
                    present = ctx.get_resources(Res)
                    if not present:
                        extra["skipped"] = True
                    else:
                        nm = sorted(present)[-1]
                        if op == "get_existing":
                            got = await ctx.get_resource(Res, nm)
                        else:
                            got = ctx.get_resource_nowait(Res, nm)
                        extra["same"] = got is present[nm]
                elif op == "get_opt":
                    extra["val"] = ctx.get_resource_nowait(Res, "nonexistent_", optional=True) is None
                elif op == "add_td":
                    self.nfresh += 1
                    cbid = f"t{self.nfresh}"
                    ctx.add_teardown_callback(self.make_trivial_cb(cbid, cid))
                    sim.log("reg", ctx=cid, cb=cbid, route="op")
                elif op == "add_td_bad":
                    ctx.add_teardown_callback(None)  # type: ignore[arg-type]
                elif op == "enter":
                    await ctx.__aenter__()
                elif op == "closed":
                    extra["val"] = ctx.closed
            except RuntimeError as e:
                res = "RuntimeError"
                extra["msg"] = str(e)[:50]
            except ResourceNotFound:
                res = "ResourceNotFound"
            except TypeError:
                res = "TypeError"
            except BaseException as e:
                if contains_cancel(e):
                    sim.log("op", ctx=cid, op=op, res="cancelled", closed=ctx.closed)
                    raise
                res = f"other:{type(e).__name__}"
            after = dict(ctx.get_resources(Res))
            sim.log(
                "op",
                ctx=cid,
                op=op,
                res=res,
                closed=ctx.closed,
                same_view=(list(before) == list(after)),
                **extra,
            )

    async def outliving_modops(self, spec: dict, cid: str | None) -> None:
        """A task spawned inside the block (so the block's context stays its current context)
        outlives the block and then uses the module-level shortcuts: they act on the current
        context - which is closed, so they raise RuntimeError and change nothing anywhere."""
        from asphalt.core import get_resource as mod_get_resource
        from asphalt.core import get_resource_nowait as mod_get_resource_nowait

        ctx = self.ctxs.get(cid) if cid else None
        if ctx is None or self.bg_tg is None:
            return
        sim = self.sim
        h = self

        async def later() -> None:
            while not ctx.closed or h.ctx_exited.get(cid) is None:
                await sim.pause(1, 0.25)
                if sim.now() > 200:
                    return
            par = ctx.parent
            for op in spec["ops"]:
                before = dict(ctx.get_resources(Res))
                pbefore = dict(par.get_resources(Res)) if par is not None else {}
                res = "ok"
                try:
                    if op == "add_resource":
                        h.nfresh += 1
                        mod_add_resource(Res(f"m{h.nfresh}"), f"m{h.nfresh}")
                    elif op == "add_td":
                        mod_add_teardown_callback(lambda: None)
                    elif op == "get":
                        await mod_get_resource(Res, "nonexistent_")
                    elif op == "get_nowait":
                        mod_get_resource_nowait(Res, "nonexistent_")
                except RuntimeError:
                    res = "RuntimeError"
                except ResourceNotFound:
                    res = "ResourceNotFound"
                except BaseException as e:  # noqa: BLE001
                    if contains_cancel(e):
                        raise
                    res = f"other:{type(e).__name__}"
                pafter = dict(par.get_resources(Res)) if par is not None else {}
                sim.log(
                    "op", ctx=cid, op=op, res=res, closed=ctx.closed, via="module",
                    same_view=(list(before) == list(ctx.get_resources(Res))) and list(pbefore) == list(pafter),
                )

        self.bg_tg.start_soon(later, name="w:outliving_" + spec["id"])

    def make_trivial_cb(self, cbid: str, cid: str) -> Any:
        sim = self.sim
        ctx = self.ctxs[cid]

        def cb(*args: Any) -> None:
            sim.log("cb_start", cb=cbid, ctx=cid, nargs=len(args), pexc=None, closed=ctx.closed, cur=self.cur(), want_pexc=False)
            sim.log("cb_end", cb=cbid, ctx=cid, how="return", exc=None)

        return cb

    # ---- teardown callbacks
    def _cb_start(self, spec: dict, cid: str, args: tuple) -> None:
        ctx = self.ctxs.get(cid)
        self.sim.log(
            "cb_start",
            cb=spec["id"],
            ctx=cid,
            nargs=len(args),
            pexc=describe(args[0]) if args else None,
            want_pexc=bool(spec.get("pexc")),
            closed=ctx.closed if ctx is not None else None,
            cur=self.cur(),
        )

    async def _abody(self, spec: dict, cid: str, args: tuple) -> None:
        sim = self.sim
        self._cb_start(spec, cid, args)
        try:
            await self.cb_steps(spec, cid, args)
        except BaseException as e:
            sim.log("cb_end", cb=spec["id"], ctx=cid, how="cancel" if is_cancel(e) else "raise", exc=describe(e))
            raise
        else:
            sim.log("cb_end", cb=spec["id"], ctx=cid, how="return", exc=None)

    def _sbody(self, spec: dict, cid: str, args: tuple) -> None:
        sim = self.sim
        self._cb_start(spec, cid, args)
        try:
            self.cb_steps_sync(spec, cid, args)
        except BaseException as e:
            sim.log("cb_end", cb=spec["id"], ctx=cid, how="raise", exc=describe(e))
            raise
        else:
            sim.log("cb_end", cb=spec["id"], ctx=cid, how="return", exc=None)

    async def cb_steps(self, spec: dict, cid: str, args: tuple = ()) -> None:
        sim = self.sim
        shield = bool(spec.get("shield"))
        for s in spec.get("body", ()):
            op = s[0]
            if op == "p":
                if shield:
                    with CancelScope(shield=True):
                        await sim.pause(s[1], s[2])
                else:
                    await sim.pause(s[1], s[2])
            elif op == "reg":
                await self.register(s[1])
            elif op == "ops":
                await self.ops(s[1], cid)
            elif op == "child":
                # a context created (and entered) while the current one is being torn down
                await self.run_block(s[1], cid)
            elif op == "leak_child":
                # a child entered during the parent's teardown and still open when the parent
                # has been left: must be reported like any other open child
                c = Context()
                self.know(c, s[1]["cid"])
                await c.__aenter__()
                self.leaked.setdefault(cid, []).append(c)
                sim.log("leak_child", parent=cid, child=s[1]["cid"], child_parent=self.cid(c.parent))
            elif op == "raise":
                e = self.tag.make(s[1])
                sim.log("raise", where="cb", cb=spec["id"], exc=describe(e))
                sim.fault("raise_in_callback")
                raise e
            elif op == "reraise":
                # the callback raises the very exception object it was handed (the one that
                # ended the block): still an exception raised by this callback
                if args and isinstance(args[0], BaseException):
                    sim.log("raise", where="cb", cb=spec["id"], exc=describe(args[0]), same=True)
                    sim.fault("reraise_in_callback")
                    raise args[0]

    def cb_steps_sync(self, spec: dict, cid: str, args: tuple = ()) -> None:
        sim = self.sim
        for s in spec.get("body", ()):
            op = s[0]
            if op == "reg":
                self.register_sync(s[1])
            elif op == "raise":
                e = self.tag.make(s[1])
                sim.log("raise", where="cb", cb=spec["id"], exc=describe(e))
                sim.fault("raise_in_callback")
                raise e
            elif op == "reraise":
                # the callback raises the very exception object it was handed (the one that
                # ended the block): still an exception raised by this callback
                if args and isinstance(args[0], BaseException):
                    sim.log("raise", where="cb", cb=spec["id"], exc=describe(args[0]), same=True)
                    sim.fault("reraise_in_callback")
                    raise args[0]

    def make_cb(self, spec: dict, cid: str) -> Any:
        kind = spec.get("kind", "sync")
        if kind == "async":

            async def f(*args: Any) -> None:
                await self._abody(spec, cid, args)

        elif kind == "sync":

            if spec.get("retgen"):
                # returns some non-awaitable leftover (a plain generator object)
                def f(*args: Any) -> Any:  # type: ignore[misc]
                    self._sbody(spec, cid, args)
                    return _plain_gen()

            else:

                def f(*args: Any) -> None:  # type: ignore[misc]
                    self._sbody(spec, cid, args)

        elif kind == "gen_coro":

            def f(*args: Any) -> Any:  # type: ignore[misc]
                return _gen_coro(self._abody(spec, cid, args))

        elif kind == "sync_aw":

            def f(*args: Any) -> Any:  # type: ignore[misc]
                return self._abody(spec, cid, args)

        else:  # "aw_obj": a sync callable returning a custom awaitable

            def f(*args: Any) -> Any:  # type: ignore[misc]
                return Aw(self._abody(spec, cid, args))

        wrap = spec.get("wrap")
        if wrap:
            # the callback is a callable *object* (no __name__ / __qualname__ of its own),
            # or a functools.partial of one
            if kind == "async":

                class _ACb:
                    async def __call__(self_, *args: Any) -> Any:
                        return await f(*args)

                obj: Any = _ACb()
            else:

                class _Cb:
                    def __call__(self_, *args: Any) -> Any:
                        return f(*args)

                obj = _Cb()
            if wrap == "partial":
                import functools

                obj = functools.partial(obj)
            elif wrap == "falsy":
                # ... that is falsy on top of it (a callable collection of clean-up steps
                # that is still empty): "was a callback given" is not a truth test
                type(obj).__len__ = lambda self_: 0  # type: ignore[attr-defined]
            return obj
        return f

    def register_sync(self, spec: dict) -> None:
        ctx = current_context()
        cid = self.cid(ctx) or "?"
        route = spec.get("route", "ctx")
        if spec.get("again"):
            # the very same callable object registered once more on the same context
            key = (cid, spec["again"])
            if key not in self.callables:
                return
            f, pexc = self.callables[key]
            if spec.get("as_res") and not pexc:
                # ... this time as the teardown callback of a resource (two resources
                # sharing one clean-up callable: it runs once for each)
                self.nfresh += 1
                ctx.add_resource(Res(spec["again"]), f"again{self.nfresh}", teardown_callback=f)
            else:
                ctx.add_teardown_callback(f, pexc)
            self.sim.log("reg", ctx=cid, cb=spec["again"], route="again")
            return
        f = self.make_cb(spec, cid)
        if route in ("ctx", "mod"):
            self.callables[(cid, spec["id"])] = (f, bool(spec.get("pexc")))
        if route == "mod":
            if spec.get("pexc"):
                mod_add_teardown_callback(f, pass_exception=True)
            else:
                mod_add_teardown_callback(f)
        elif route == "res":
            if spec.get("multi"):
                ctx.add_resource(Res(spec["id"]), "r_" + spec["id"], [Res, Res2], teardown_callback=f)
            else:
                ctx.add_resource(Res(spec["id"]), "r_" + spec["id"], teardown_callback=f)
        elif route == "modres":
            mod_add_resource(Res(spec["id"]), "r_" + spec["id"], teardown_callback=f)
        else:
            if spec.get("pexc"):
                ctx.add_teardown_callback(f, True)
            else:
                ctx.add_teardown_callback(f)
        self.sim.log("reg", ctx=cid, cb=spec["id"], route=route)
        if spec.get("dup") and route in ("res", "modres"):
            # the same name once more (or an invalid one): rejected, and the callback that
            # came with the rejected call is not registered - it must never run
            dspec = {"id": spec["id"] + "_dup", "kind": "sync", "body": []}
            g = self.make_cb(dspec, cid)
            nm = "r_" + spec["id"] if spec["dup"] == "conflict" else "bad name!"
            try:
                if route == "res":
                    ctx.add_resource(Res(spec["id"] + "_dup"), nm, teardown_callback=g)
                else:
                    mod_add_resource(Res(spec["id"] + "_dup"), nm, teardown_callback=g)
            except (ResourceConflict, ValueError) as e:
                self.sim.log("reg_rejected", ctx=cid, cb=dspec["id"], exc=type(e).__name__)
            else:
                self.sim.log("reg", ctx=cid, cb=dspec["id"], route=route)
                self.sim.log("note", what="duplicate_add_accepted", cb=dspec["id"])

    async def register(self, spec: dict) -> None:
        route = spec.get("route", "ctx")
        if route not in ("tdf", "tdm"):
            self.register_sync(spec)
            return
        sim = self.sim
        ctx = current_context()
        cid = self.cid(ctx) or "?"
        h = self

        async def gen_body(exc_holder: list) -> None:
            pass

        if route == "tdf" and spec.get("shared"):
            await _shared_teardown_gen(h, spec, cid)
            sim.log("reg", ctx=cid, cb=spec["id"], route=route)
            return
        if route == "tdf":

            if spec.get("inner_ctx"):
                # the generator keeps a sub-context of its own open across the yield; the
                # teardown hook still belongs to the context that was current at the call
                @context_teardown
                async def genf():  # type: ignore[no-untyped-def]
                    async with Context():
                        exc = yield
                        h._cb_start(spec, cid, (exc,))
                        sim.log("cb_end", cb=spec["id"], ctx=cid, how="return", exc=None)

            else:

                @context_teardown
                async def genf():  # type: ignore[no-untyped-def]
                    await h.pre_steps(spec, cid)
                    exc = yield
                    h._cb_start(spec, cid, (exc,))
                    try:
                        await h.cb_steps(spec, cid, (exc,))
                    except BaseException as e:
                        sim.log("cb_end", cb=spec["id"], ctx=cid, how="cancel" if is_cancel(e) else "raise", exc=describe(e))
                        raise
                    else:
                        sim.log("cb_end", cb=spec["id"], ctx=cid, how="return", exc=None)

            await genf()
        else:

            class Obj:
                @context_teardown
                async def start(self_):  # type: ignore[no-untyped-def]
                    await h.pre_steps(spec, cid)
                    exc = yield
                    h._cb_start(spec, cid, (exc,))
                    try:
                        await h.cb_steps(spec, cid, (exc,))
                    except BaseException as e:
                        sim.log("cb_end", cb=spec["id"], ctx=cid, how="cancel" if is_cancel(e) else "raise", exc=describe(e))
                        raise
                    else:
                        sim.log("cb_end", cb=spec["id"], ctx=cid, how="return", exc=None)

            await Obj().start()
        sim.log("reg", ctx=cid, cb=spec["id"], route=route)

    async def pre_steps(self, spec: dict, cid: str) -> None:
        for s in spec.get("pre", ()):
            if s[0] == "p":
                await self.sim.pause(s[1], s[2])
            elif s[0] == "reg":
                await self.register(s[1])


# ================================================================================ main
def make_main(plan: dict):
    async def main(sim: Sim) -> None:
        h = H(sim, plan)
        sim.user["h"] = h
        root = plan["root"]
        ambient = plan.get("ambient")
        try:
            with CancelScope() as scope:
                h.scope = scope
                sim.user["scope"] = scope
                try:
                    h.at(None, "start")
                    if plan.get("outsider"):
                        # a task that was started before any context existed and keeps
                        # running beside everything else: it never has a current context
                        async with create_task_group() as otg:
                            otg.start_soon(h.outsider, plan["outsider"], name="w:outsider")
                            if plan.get("bg"):
                                async with create_task_group() as h.bg_tg:
                                    await h.run_block(root, None)
                                    h.at(None, "end")
                            else:
                                await h.run_block(root, None)
                            otg.cancel_scope.cancel()
                    elif plan.get("bg"):
                        async with create_task_group() as h.bg_tg:
                            await h.run_block(root, None)
                            h.at(None, "end")
                    elif ambient == "except":
                        try:
                            raise Ambient("ambient")
                        except Ambient:
                            await h.run_block(root, None)
                    elif ambient == "exitstack":
                        await h.run_block_exitstack(root, None)
                    else:
                        await h.run_block(root, None)
                    h.at(None, "end")
                    if plan.get("corrupt_root"):
                        async with create_task_group() as tg:
                            tg.start_soon(h.corrupt, plan["corrupt_root"], name="w:corrupt_root")
                except BaseException as e:
                    sim.log("top_exc", exc=describe(e))
                    if contains_cancel(e) or sim.aborting:
                        raise
            sim.log("top_done", cancelled_caught=scope.cancelled_caught, cancel_called=scope.cancel_called)
        except BaseException as e:
            sim.log("escaped", exc=describe(e))
            if sim.aborting and is_cancel(e):
                raise

    return main


def walk_blocks(b: dict):
    yield b
    for a in _walk_acts(b.get("body", ())):
        if a[0] == "child":
            yield from walk_blocks(a[1])


def _walk_acts(acts):
    for a in acts:
        yield a
        if a[0] == "par":
            for br in a[1]:
                yield from _walk_acts(br.get("body", ()))
        elif a[0] == "svc":
            yield from _walk_acts(a[1].get("body", ()))
        elif a[0] == "child":
            yield from _walk_acts(a[1].get("body", ()))


def execute(plan: dict, *, want_digest: bool = False, want_trace: bool = False) -> dict:
    cancel = plan.get("cancel")
    fire_step = None
    pilot_steps = None
    if cancel:
        pilot = Sim(plan, trace_steps=False)
        run_sim(pilot, make_main(plan))
        pilot_steps = pilot.step
        fire_step = 1 + min(int(cancel["frac"] * pilot_steps), max(pilot_steps - 1, 0))
    sim = Sim(plan)
    if fire_step is not None:

        def fire() -> None:
            scope = sim.user.get("scope")
            if scope is not None and not scope.cancel_called:
                sim.log("cancel_fire")
                sim.fault("cancel_at_step")
                scope.cancel()

        sim.inject_at_step(fire_step, fire)
    run_sim(sim, make_main(plan))
    viol = oracle(sim, plan)
    res = {
        "violations": viol,
        "faults": dict(sim.faults),
        "probes": dict(sim.probes),
        "steps": sim.step,
        "vtime": sim.end_time,
        "sig": sim.signature(),
        "deadlock": sim.deadlock,
        "crashed": sim.crashed,
        "step_limit": sim.step_limit,
        "fire_step": fire_step,
        "pilot_steps": pilot_steps,
        "nontrivial": _nontrivial(sim),
        "final": _final(sim),
    }
    if want_digest:
        res["digest"] = sim.digest()
    if want_trace:
        res["trace"] = sim.dump_trace()
    return res


def _nontrivial(sim: Sim) -> bool:
    tasks = {r[3] for r in sim.trace}
    return len(tasks) >= 2 or sum(sim.faults.values()) > 0


def _final(sim: Sim) -> str:
    import hashlib

    h = hashlib.blake2b(digest_size=8)
    for r in sim.trace:
        if r[4] in ("ctx_exit", "cb_end", "top_done", "escaped"):
            h.update(repr((r[4], sorted(r[5].items(), key=lambda kv: kv[0]))).encode())
    return h.hexdigest()


# ============================================================================== oracles
def oracle(sim: Sim, plan: dict) -> list[dict]:
    V: list[dict] = []

    def v(rule: str, key: str, msg: str) -> None:
        V.append({"rule": rule, "key": key, "msg": msg})

    tr = sim.trace
    if sim.step_limit:
        return V
    if sim.deadlock:
        for p in PROPS:
            v(f"{p}.deadlock", "deadlock", "run deadlocked (nothing runnable, no timers)")
        return V

    cancel_seq = None
    for r in tr:
        if r[4] == "cancel_fire":
            cancel_seq = r[0]
            break

    # ------------------------------------------------------------------ index by ctx
    ctx_ev: dict[str, dict[str, Any]] = {}
    for r in tr:
        seq, _step, _t, _task, kind, d = r
        c = d.get("ctx")
        if kind in ("ctx_new", "ctx_enter", "body_end", "ctx_exit") and c is not None:
            ctx_ev.setdefault(c, {})[kind] = r
    ambient = plan.get("ambient")
    root_id = plan["root"]["id"]
    svc_escaped = any(r[4] == "svc_escape" for r in tr)

    # ------------------------------------------------------------------------ C01
    stacks: dict[str, list[str]] = {}
    running: dict[str, str | None] = {}
    starts: dict[str, int] = {}
    ends: dict[str, int] = {}
    regs: dict[str, str] = {}
    reg_count: dict[str, int] = {}
    raised: dict[str, list] = {}
    reg_seq: dict[str, int] = {}
    svc_owners = {r[5]["exp_parent"] for r in tr if r[4] == "task_ctx"}
    for r in tr:
        seq, _step, _t, _task, kind, d = r
        if kind == "reg":
            c = d["ctx"]
            stacks.setdefault(c, []).append(d["cb"])
            regs[d["cb"]] = c
            reg_count[d["cb"]] = reg_count.get(d["cb"], 0) + 1
            reg_seq[d["cb"]] = seq
            ev = ctx_ev.get(c, {})
            if "ctx_exit" in ev and ev["ctx_exit"][0] < seq:
                v("C13.effect", "reg_after_exit", f"callback {d['cb']} registered on {c} after it was left")
        elif kind == "cb_start":
            c, cb = d["ctx"], d["cb"]
            starts[cb] = starts.get(cb, 0) + 1
            ev = ctx_ev.get(c, {})
            if cb not in regs:
                # callback of an operation that was rejected must never run
                v("C13.effect", "rejected_cb_ran", f"callback {cb} ran although its registration was rejected")
                v("C01.once", "rejected_ran", f"callback {cb} ran although the call that carried it was rejected (it was never registered)")
                continue
            if "body_end" not in ev or ev["body_end"][0] > seq:
                v("C01.early", "before_block_end", f"callback {cb} of {c} started before the block was left")
            if "ctx_exit" in ev and ev["ctx_exit"][0] < seq:
                v("C01.late", "after_exit", f"callback {cb} of {c} started after the context was left")
            st = stacks.get(c, [])
            if "body_end" in ev and regs.get(cb) and any(
                x[0] > ev["body_end"][0] and x[4] == "reg" and x[5]["cb"] == cb for x in tr[: seq]
            ):
                sim.probe("callback_registered_during_teardown_ran")
            if not st or st[-1] != cb:
                v(
                    "C01.order",
                    "lifo",
                    f"callback {cb} of {c} started but the most recently registered pending one is "
                    f"{st[-1] if st else None} (pending, oldest first: {st})",
                )
                if cb in st:
                    st.remove(cb)
            else:
                st.pop()
            if running.get(c):
                v("C01.overlap", "overlap", f"callback {cb} of {c} started while {running[c]} had not finished")
            running[c] = cb
            if d.get("closed") is not True:
                v("C01.closed", "in_callback", f"ctx {c}.closed was {d.get('closed')} inside teardown callback {cb}")
            # argument plumbing
            want = d.get("want_pexc")
            if want and d["nargs"] != 1:
                v("C01.pexc", "nargs", f"pass_exception callback {cb} called with {d['nargs']} args")
            if not want and d["nargs"] != 0:
                v("C01.pexc", "nargs", f"plain callback {cb} called with {d['nargs']} args")
            if want and d["nargs"] == 1 and "body_end" in ev:
                be = ev["body_end"][5]
                expected = be["exc"]
                got = d["pexc"]
                if be["how"] == "cancel" or (cancel_seq is not None and cancel_seq < seq):
                    ok = got == expected or "cancel" in leaves(got)
                else:
                    ok = got == expected
                if not ok:
                    key = "mismatch"
                    if ambient == "except" and expected is None and str(got).startswith("other:Ambient"):
                        key = "ambient_except"
                    elif ambient == "exitstack" and c == root_id and got is None:
                        key = "exitstack"
                    v(
                        "C01.pexc",
                        key,
                        f"callback {cb} of {c} received {got!r}; the block ended with {expected!r}",
                    )
        elif kind == "cb_end":
            c, cb = d["ctx"], d["cb"]
            ends[cb] = ends.get(cb, 0) + 1
            if d["how"] == "cancel":
                sim.probe("callback_cancelled_at_checkpoint")
            if cancel_seq is not None and starts.get(cb) and ctx_ev.get(c, {}).get("body_end", (0,))[0] < cancel_seq < seq:
                sim.probe("cancel_landed_during_teardown")
            if running.get(c) == cb:
                running[c] = None
            if d["how"] != "return":
                raised.setdefault(c, []).append(d["exc"])
                if isinstance(d["exc"], str) and d["exc"].startswith("other:RuntimeError"):
                    # the callback did not raise this itself: something it is allowed to do
                    # while its context is being torn down (register a callback, publish a
                    # resource with one, look something up) was refused
                    v("C01.once", "registration_refused_in_teardown", f"callback {cb} of {c} failed with {d['exc']}: an operation that is allowed during teardown was refused")
                    v("C13.allowed", "refused_in_teardown", f"callback {cb} of {c} failed with {d['exc']}: an operation that is allowed during teardown was refused")

    for c, ev in ctx_ev.items():
        if "ctx_exit" not in ev:
            continue
        exit_seq = ev["ctx_exit"][0]
        for cb, cc in regs.items():
            if cc != c:
                continue
            ns, ne = starts.get(cb, 0), ends.get(cb, 0)
            want_n = reg_count.get(cb, 1)
            if ns != want_n or ne != want_n:
                v(
                    "C01.once",
                    "missing" if ns < want_n else ("unfinished" if ne < ns else "repeated"),
                    f"callback {cb} of {c} (registered {want_n}x): started {ns}x, finished {ne}x by the time the context was left",
                )
                if ns < want_n and "body_end" in ev and reg_seq.get(cb, 0) > ev["body_end"][0]:
                    # registering during teardown is allowed (C13) - and "allowed" means it
                    # takes effect: the callback runs before the context has finished closing
                    v(
                        "C13.effect",
                        "registered_in_teardown_dropped",
                        f"callback {cb} was accepted by {c} while it was tearing down but never ran",
                    )
        xd = ev["ctx_exit"][5]
        if xd.get("closed") is not True:
            v("C01.closed", "after_exit", f"ctx {c}.closed is {xd.get('closed')} after the block was left")
            v("C13.closed", "after_exit", f"ctx {c}.closed is {xd.get('closed')} after the block was left")
        if "ctx_enter" in ev and ev["ctx_enter"][5].get("closed") is not False:
            v("C13.closed", "open", f"ctx {c}.closed was {ev['ctx_enter'][5].get('closed')} right after entry")
        if "body_end" in ev and ev["body_end"][5].get("closed") is not False:
            v("C13.closed", "open", f"ctx {c}.closed was not False at the end of the block body")
        if "body_end" not in ev:
            continue
        be = ev["body_end"][5]
        R = raised.get(c, [])
        observed = xd["exc"]
        if svc_escaped and ev["ctx_new"][5]["parent"] is None:
            # a crashed service task legitimately takes its root context down (C08)
            continue
        cancelled = (
            (cancel_seq is not None and cancel_seq < exit_seq)
            or be["how"] == "cancel"
            or "cancel" in leaves(observed)
            or "cancel" in leaves({"g": R})
        )
        if (
            cancelled
            and ev["ctx_new"][5]["parent"] is not None
            and be["how"] in ("return", "raise")
            and "cancel" not in leaves(be["exc"])
            and "cancel" not in leaves({"g": R})
            and "cancel" in leaves(observed)
            and c not in svc_owners
        ):
            # Leaving a non-root context awaits nothing but its teardown callbacks.  When the
            # block itself was not interrupted and no callback was, a cancellation that is
            # pending (delivered while a shielded or synchronous callback ran) has no place
            # to surface inside __aexit__: the caller must see the block's own outcome and
            # meet the cancellation at *its* next checkpoint.
            v(
                "C01.outcome",
                "cancel_injected",
                f"ctx {c}: block ended with {be['exc']}, no teardown callback was interrupted, yet the caller observed {observed}",
            )
        if cancelled:
            allowed = set(map(_h, leaves({"g": R}))) | set(map(_h, leaves(be["exc"]))) | {"cancel"}
            extra = [x for x in leaves(observed) if _h(x) not in allowed]
            if extra:
                v("C01.outcome", "cancel_foreign", f"ctx {c} (cancelled run) raised foreign leaves {extra}")
            need = [x for x in leaves({"g": R}) if x != "cancel"]
            got = set(map(_h, leaves(observed)))
            lost = [x for x in need if _h(x) not in got]
            if lost:
                v("C01.group", "cancel_lost", f"ctx {c}: callback exceptions {lost} vanished (cancelled run)")
            continue
        if R:
            ok = any(strip(n)["g"] == strip({"g": R})["g"] for n in group_nodes(observed))
            if not ok:
                v(
                    "C01.group",
                    "group",
                    f"ctx {c}: callbacks raised {R} but the caller observed {observed}",
                )
        else:
            exp_exc = be["exc"]
            if be["how"] == "return":
                if observed is not None:
                    v("C01.outcome", "clean", f"ctx {c}: clean block, no callback raised, caller observed {observed}")
            elif is_ordinary(exp_exc):
                if observed != exp_exc:
                    v(
                        "C01.outcome",
                        "unwrapped",
                        f"ctx {c}: block raised {exp_exc}, caller observed {observed} (must be the same object, unwrapped)",
                    )
            else:
                if sorted(map(_h, leaves(observed))) != sorted(map(_h, leaves(exp_exc))):
                    v("C01.outcome", "leaves", f"ctx {c}: block raised {exp_exc}, caller observed {observed}")

    # ------------------------------------------------------------------------ C12
    for r in tr:
        seq, _step, _t, task, kind, d = r
        if kind == "at":
            if d["cur"] != d["exp"]:
                v("C12.current", d.get("where", "at"), f"task {task}: current_context() is {d['cur']}, expected {d['exp']} ({d.get('where')})")
        elif kind == "ctx_new":
            if d["parent"] != d["exp"]:
                v("C12.parent", "parent", f"new context {d['ctx']} has parent {d['parent']}, context current at creation was {d['exp']}")
        elif kind == "parent_at_entry":
            if d["parent"] != d["exp"]:
                v("C12.parent", "entry_time", f"context {d['ctx']} created under {d['exp']} has parent {d['parent']} when entered from another context")
        elif kind == "ctx_enter":
            if d["cur"] != d["ctx"]:
                v("C12.current", "inside", f"inside block of {d['ctx']} current_context() is {d['cur']}")
            if not d.get("same", True):
                v("C12.current", "aenter", f"__aenter__ of {d['ctx']} returned another object")
        elif kind == "ctx_exit":
            if d["cur"] != d["exp"]:
                v("C12.restore", "exit", f"after leaving {d['ctx']} current_context() is {d['cur']}, expected {d['exp']} (task {task})")
        elif kind == "cb_start":
            if d.get("cur") != d.get("ctx") and d["cb"] in regs:
                v("C12.current", "teardown", f"inside teardown callback {d['cb']} current_context() is {d['cur']}, expected {d['ctx']}")
        elif kind == "task_ctx":
            if not d["fresh"]:
                v("C12.task", "not_fresh", f"service task {d['task']} runs in an existing context")
            if d["parent"] != d["exp_parent"]:
                v("C12.task", "parent", f"service task {d['task']} context parent is {d['parent']}, expected {d['exp_parent']}")

    # ------------------------------------------------------------------------ C13
    for r in tr:
        seq, _step, _t, task, kind, d = r
        if kind == "op":
            c = d["ctx"]
            ev = ctx_ev.get(c, {})
            if d["res"] == "cancelled":
                continue
            if "ctx_enter" not in ev or seq < ev["ctx_enter"][0]:
                state = "inactive"
            elif "body_end" not in ev or seq < ev["body_end"][0]:
                state = "open"
            elif "ctx_exit" not in ev or seq < ev["ctx_exit"][0]:
                state = "closing"
            else:
                state = "closed"
            op, res = d["op"], d["res"]
            key = f"{op}@{state}" + ("@module_level" if d.get("via") else "")
            if op == "closed":
                want = state in ("closing", "closed")
                if d["val"] is not want:
                    v("C13.closed", key, f"ctx {c}.closed is {d['val']} in state {state}")
                continue
            if d.get("skipped"):
                continue
            if state in ("inactive", "closed") or (state == "closing" and op == "add_factory") or (
                op == "enter"
            ):
                if res != "RuntimeError":
                    v("C13.guard", key, f"{op} on {c} in state {state} gave {res}, expected RuntimeError")
                if not d.get("same_view", True):
                    v("C13.effect", key, f"rejected {op} on {c} in state {state} changed the visible resources")
            else:
                if d.get("skipped"):
                    continue
                want_res = {
                    "get_existing": "ok",
                    "get_nowait_existing": "ok",
                    "add_resource": "ok",
                    "add_factory": "ok",
                    "get": "ResourceNotFound",
                    "get_nowait": "ResourceNotFound",
                    "get_opt": "ok",
                    "add_td": "ok",
                    "add_td_bad": "TypeError",
                }[op]
                if res != want_res:
                    v("C13.allowed", key, f"{op} on {c} in state {state} gave {res}, expected {want_res}")
                if op == "add_resource" and res == "ok" and d.get("visible") is not True:
                    v("C13.effect", key, f"resource added to {c} in state {state} is not visible")
        elif kind == "race_get":
            if "cancelled" not in d["res"] and d["res"] != ["ok", "ok"]:
                v("C13.allowed", "get_race@closing", f"two lookups of one slow factory racing on {d['ctx']} while it was being torn down gave {d['res']}, expected both to get the product")
        elif kind == "foreign_exit":
            if d["before"] != d["exp"] or d["after"] != d["exp"]:
                v(
                    "C12.current",
                    "foreign_exit",
                    f"a task whose current context is {d['exp']} tried to leave a context entered by another task ({d['res']}): "
                    f"its current_context() was {d['before']} before and {d['after']} after",
                )
        elif kind == "leak_exit":
            if not d["reported"]:
                root_failing = ctx_ev.get(d["ctx"], {}).get("ctx_new", (0, 0, 0, 0, 0, {}))[5].get("parent") is None and d["exc"] is not None
                v(
                    "C13.corruption",
                    "silent_teardown_child" if not root_failing else "silent_root_failing_exit",
                    f"context {d['ctx']} was left while a child entered during its teardown was still open; observed {d['exc']}, the open child was not reported",
                )
        elif kind == "corrupt_exit":
            if not d["reported"]:
                key = "silent"
                if d.get("how") == "mid_teardown":
                    key = "silent_mid_teardown"
                elif d.get("how") == "orphan":
                    key = "silent_orphan"
                elif d.get("how") == "explicit_foreign":
                    key = "silent_explicit_parent"
                elif d.get("root") and d.get("how") != "clean":
                    key = "silent_root_failing_exit"
                v(
                    "C13.corruption",
                    key,
                    f"leaving {'root ' if d.get('root') else ''}context {d['p']} ({d.get('how')} exit) with an open child "
                    f"gave {d['exc']}; the open child was not reported",
                )
            if d["closed"] is not True:
                v("C13.closed", "corrupt", f"{d['p']}.closed is {d['closed']} after a corrupt exit")
    return V


def strip(d: Any) -> Any:
    """Drop group tags: backends re-derive exception groups, only leaves keep identity."""
    if isinstance(d, dict):
        return {"g": [strip(x) for x in d["g"]]}
    return d


def _h(x: Any) -> str:
    return x if isinstance(x, str) else repr(x)


# ============================================================================ generator
class G:
    def __init__(self, rng: random.Random, tier: str, prop: str) -> None:
        self.rng = rng
        self.tier = tier
        self.prop = prop
        self.ncb = 0
        self.nctx = 0
        self.ntask = 0
        self.big = tier == "thorough"
        # swarm knob: this plan mixes generator-based awaitables and plain generators
        self.genmix = rng.random() < 0.1

    def exc_class(self, base_ok: bool = True) -> str:
        w = {"SimError": 5, "SimLookup": 2, "SimType": 1.5, "group": 1}
        if base_ok:
            w.update({"SimFatal": 3, "KI": 1, "SE": 1, "bgroup": 0.7})
        return pick(self.rng, w)

    def cb(self, depth: int = 0, sync_only: bool = False, in_teardown: bool = False) -> dict:
        rng = self.rng
        self.ncb += 1
        cid = f"c{self.ncb}"
        routes = {"ctx": 5, "mod": 2, "res": 2, "modres": 0.6}
        if not sync_only:
            routes.update({"tdf": 1.5, "tdm": 1})
        route = pick(rng, routes)
        spec: dict[str, Any] = {"id": cid, "route": route}
        if route in ("tdf", "tdm"):
            kind = "async"
            spec["pexc"] = True
            pre = []
            if rng.random() < 0.4:
                pre.append(rpause(rng))
            if rng.random() < 0.15 and depth < 2:
                pre.append(["reg", self.cb(depth + 1, in_teardown=in_teardown)])
            spec["pre"] = pre
            if route == "tdf" and rng.random() < 0.5:
                spec["shared"] = True
        else:
            kind = pick(rng, {"sync": 3, "async": 4, "sync_aw": 1.2, "aw_obj": 0.5, "gen_coro": 3.0 if self.genmix else 0.3})
            spec["pexc"] = route in ("ctx", "mod") and rng.random() < 0.45
            if kind == "sync" and rng.random() < (0.5 if self.genmix else 0.04):
                spec["retgen"] = True
        spec["kind"] = kind
        if route == "res" and rng.random() < 0.4:
            spec["multi"] = True
        if route in ("res", "modres") and rng.random() < 0.2:
            spec["dup"] = rng.choice(("conflict", "conflict", "bad_name"))
        if route in ("ctx", "mod", "res", "modres") and kind in ("sync", "async") and rng.random() < 0.12:
            spec["wrap"] = rng.choice(("obj", "partial", "falsy"))
        body: list = []
        is_async = kind != "sync"
        n = rng.randint(0, 3)
        for _ in range(n):
            r = rng.random()
            if is_async and r < 0.6:
                body.append(rpause(rng))
            elif r < 0.8 and depth < 2:
                body.append(["reg", self.cb(depth + 1, sync_only=not is_async, in_teardown=True)])
        if rng.random() < 0.3:
            pos = rng.randint(0, len(body))
            body.insert(pos, ["raise", self.exc_class()])
            del body[pos + 1 :]
            if rng.random() < 0.5:
                body[pos + 1 :] = []
        elif spec["pexc"] and rng.random() < 0.15:
            # re-raises whatever it was handed (nothing after a clean exit)
            body.append(["reraise"])
        spec["body"] = body
        if is_async and rng.random() < 0.25:
            spec["shield"] = True
        return spec

    def block(self, depth: int, budget: list[int]) -> dict:
        rng = self.rng
        self.nctx += 1
        b: dict[str, Any] = {"id": f"x{self.nctx}", "parent": rng.choice(("implicit", "implicit", "explicit"))}
        body: list = []
        n = rng.randint(0, 6 if not self.big else 9)
        for _ in range(n):
            r = rng.random()
            if r < 0.45 and budget[0] > 0:
                budget[0] -= 1
                body.append(["reg", self.cb()])
                earlier = [
                    a[1]["id"]
                    for a in body
                    if a[0] == "reg" and "again" not in a[1] and a[1].get("route") in ("ctx", "mod")
                    and not any(st[0] == "reg" for st in a[1].get("body", ()))
                ]
                if len(earlier) >= 1 and rng.random() < 0.25:
                    body.append(["reg", {"again": rng.choice(earlier), "id": "again", "route": "ctx", "kind": "sync", "body": [], "as_res": rng.random() < 0.5}])
            elif r < 0.7:
                body.append(rpause(rng))
            elif r < 0.73 and budget[0] > 0 and self.ntask < 6:
                # a service task that registers callbacks on its OWN context and is then
                # stopped (cancelled) when the owner is torn down
                budget[0] -= 1
                self.ntask += 1
                cbs = []
                for _ in range(rng.randint(1, 2)):
                    self.ncb += 1
                    c_ = {
                        "id": f"c{self.ncb}",
                        "route": rng.choice(("ctx", "mod")),
                        "kind": rng.choice(("sync", "async")),
                        "pexc": True,
                        "body": [],
                    }
                    cbs.append(["reg", c_])
                body.append(["svc", {"name": f"s{self.ntask}", "body": cbs + [rpause(rng, 0.2)], "forever": True, "action": "cancel"}])
            elif r < 0.8 and depth < 3 and self.nctx < 6:
                ch = self.block(depth + 1, budget)
                ch["catch"] = rng.random() < 0.7
                body.append(["child", ch])
            elif r < 0.9 and depth < 3:
                brs = []
                for _ in range(rng.randint(1, 3)):
                    self.ntask += 1
                    bb: list = []
                    for _ in range(rng.randint(1, 3)):
                        rr = rng.random()
                        if rr < 0.5 and budget[0] > 0:
                            budget[0] -= 1
                            bb.append(["reg", self.cb()])
                        elif rr < 0.85:
                            bb.append(rpause(rng))
                        elif depth < 2 and self.nctx < 6:
                            ch = self.block(depth + 2, budget)
                            ch["catch"] = True
                            bb.append(["child", ch])
                    brs.append({"name": f"t{self.ntask}", "body": bb})
                body.append(["par", brs])
        if self.prop == "C01" and rng.random() < 0.06:
            # must be the last thing this task does in the block: the generator's inner
            # context stays current in the calling task until the hook has run
            self.ncb += 1
            body.append(["reg", {"id": f"c{self.ncb}", "route": "tdf", "kind": "async", "pexc": True, "pre": [], "body": [], "inner_ctx": True}])
        b["body"] = body
        r = rng.random()
        if r < 0.55:
            b["end"] = {"how": "return"}
        else:
            b["end"] = {"how": "raise", "exc": self.exc_class()}
        b["catch"] = True
        return b


def gen(rng: random.Random, tier: str, prop: str) -> dict:
    g = G(rng, tier, prop)
    backend = "asyncio" if rng.random() < 0.6 else "trio"
    plan: dict[str, Any] = {
        "v": 1,
        "world": NAME,
        "property": prop,
        "backend": backend,
        "sched": {"policy": rng.choice(("uniform", "coin", "prio", "fifo")), "seed": rng.getrandbits(32)},
    }
    if prop == "C12":
        plan.update(gen_c12(g))
    elif prop == "C13":
        plan.update(gen_c13(g))
    else:
        budget = [rng.randint(1, 8 if tier == "quick" else 12)]
        root = g.block(0, budget)
        # wrap in 0-2 plain outer contexts so that the block under test is not always a root
        for _ in range(rng.choice((0, 0, 1, 1, 2))):
            g.nctx += 1
            outer = {
                "id": f"x{g.nctx}",
                "parent": "implicit",
                "body": [["child", root]],
                "end": {"how": "return"},
                "catch": True,
            }
            if rng.random() < 0.5 and budget[0] >= 0:
                outer["body"].insert(0, ["reg", g.cb()])
            root = outer
        plan["root"] = root
        bulk = prop == "C01" and rng.random() < 0.06
        if bulk:
            # scale knob: one context carries dozens of callbacks
            blocks = list(walk_blocks(root))
            tgt = rng.choice(blocks)
            regs = []
            for _ in range(rng.randint(28, 70)):
                g.ncb += 1
                regs.append(["reg", {"id": f"c{g.ncb}", "route": rng.choice(("ctx", "ctx", "mod")), "kind": rng.choice(("sync", "sync", "async")), "pexc": rng.random() < 0.3, "body": []}])
            pos = rng.randint(0, len(tgt["body"]))
            if tgt["body"] and tgt["body"][-1][0] == "reg" and tgt["body"][-1][1].get("inner_ctx"):
                pos = min(pos, len(tgt["body"]) - 1)
            tgt["body"][pos:pos] = regs
        r = rng.random()
        if r < 0.08 and root["end"]["how"] == "return":
            plan["ambient"] = "except"
        elif r < 0.14:
            plan["ambient"] = "exitstack"
            root["end"] = {"how": "raise", "exc": g.exc_class()}
        if rng.random() < (0.6 if bulk else 0.25):
            plan["cancel"] = {"frac": round(rng.random(), 4)}
    if rng.random() < 0.3:
        plan["probe_every"] = True
    if rng.random() < 0.08:
        # some of the contexts are instances of a falsy Context subclass
        for b in walk_blocks(plan["root"]):
            if rng.random() < 0.5:
                b["falsy"] = True
    return plan


def gen_c12(g: G) -> dict:
    rng = g.rng
    use_bg = [False]

    def body(depth: int) -> list:
        out: list = []
        for _ in range(rng.randint(1, 4)):
            r = rng.random()
            if r < 0.04 and depth >= 1 and g.nctx < 10:
                # misuse that must not disturb the task's own current context
                g.nctx += 1
                out.append(["foreign_exit", {"cid": f"x{g.nctx}", "gap": [rng.choice((0, 1)), rng.choice((0.0, 0.25))]}])
            elif r < 0.08 and depth >= 1:
                # rejected re-entry attempts (twice) of the context that is current here
                out.append(["ops", ["enter", "enter"], None])
            elif r < 0.12 and depth >= 1 and g.nctx < 10:
                g.nctx += 1
                out.append(["tfcrash", {"cid": f"x{g.nctx}", "gap": [rng.choice((0, 1)), rng.choice((0.0, 0.25))]}])
            elif r < 0.15 and depth >= 1:
                g.ncb += 1
                out.append(["bglookup", {"id": f"q{g.ncb}", "dur": rng.choice((0.5, 1.0, 3.0)), "gap": [rng.choice((1, 2)), rng.choice((0.0, 0.25))]}])
                use_bg[0] = True
            elif r < 0.3:
                out.append(rpause(rng))
            elif r < 0.6 and depth < 4 and g.nctx < 10:
                g.nctx += 1
                b: dict[str, Any] = {
                    "id": f"x{g.nctx}",
                    "parent": rng.choice(("implicit", "implicit", "explicit")),
                    "body": body(depth + 1),
                    "catch": True,
                }
                er = rng.random()
                if er < 0.5:
                    b["end"] = {"how": "return"}
                else:
                    b["end"] = {"how": "raise", "exc": g.exc_class()}
                if rng.random() < 0.3:
                    cb = g.cb()
                    if cb["kind"] != "sync" and rng.random() < 0.5 and g.nctx < 10:
                        g.nctx += 1
                        inner = {"id": f"x{g.nctx}", "parent": rng.choice(("implicit", "explicit")), "body": [rpause(rng)], "end": {"how": "return"}, "catch": True}
                        keep = [st for st in cb["body"] if st[0] != "raise"]
                        cb["body"] = keep[:1] + [["child", inner]] + keep[1:] + [st for st in cb["body"] if st[0] == "raise"][:1]
                    b["body"].insert(0, ["reg", cb])
                if rng.random() < 0.2:
                    g.nctx += 1
                    b["via"] = f"x{g.nctx}"
                    if rng.random() < 0.5:
                        b["untouched"] = True
                if rng.random() < 0.25 and g.ntask < 8:
                    g.ntask += 1
                    bgbody: list = [rpause(rng, 0.1), rpause(rng, 0.1), rpause(rng, 0.1)]
                    if rng.random() < 0.5 and g.nctx < 10:
                        # the outliving task creates a context of its own, often only after
                        # the context it was spawned in has been left and closed: that
                        # (closed) context is still current in the task, hence the parent
                        g.nctx += 1
                        bgbody += [
                            rpause(rng),
                            ["child", {"id": f"x{g.nctx}", "parent": "implicit", "body": [rpause(rng, 0.3)], "end": {"how": "return"}, "catch": True}],
                            rpause(rng, 0.3),
                        ]
                    b["body"].insert(rng.randint(0, len(b["body"])), ["bg", {"name": f"t{g.ntask}", "body": bgbody}])
                    use_bg[0] = True
                out.append(["child", b])
            elif r < 0.8 and depth < 4 and g.ntask < 8:
                brs = []
                for _ in range(rng.randint(2, 4)):
                    g.ntask += 1
                    brs.append({"name": f"t{g.ntask}", "body": body(depth + 1)})
                out.append(["par", brs])
            elif r < 0.9 and depth >= 1 and g.ntask < 8:
                g.ntask += 1
                out.append(
                    [
                        "svc",
                        {
                            "name": f"s{g.ntask}",
                            "body": body(depth + 2),
                            "forever": rng.random() < 0.5,
                            "action": "cancel",
                        },
                    ]
                )
        return out

    g.nctx += 1
    root = {"id": f"x{g.nctx}", "parent": "implicit", "body": body(1), "end": {"how": "return"}, "catch": True}
    out: dict[str, Any] = {"root": root, "probe_every": True}
    if use_bg[0]:
        out["bg"] = True
    if rng.random() < 0.25:
        out["outsider"] = [rpause(rng, 0.2) for _ in range(rng.randint(2, 6))]
    if rng.random() < (0.6 if "bglookup" in str(root) else 0.3):
        out["cancel"] = {"frac": round(rng.random(), 4)}
    return out


OPS = (
    "add_resource",
    "add_factory",
    "get",
    "get_nowait",
    "get_opt",
    "get_existing",
    "get_nowait_existing",
    "add_td",
    "add_td_bad",
    "enter",
    "closed",
)


def gen_c13(g: G) -> dict:
    rng = g.rng
    use_bg = [False]

    def ops(state: str) -> list:
        pool = [o for o in OPS if not (o == "enter" and state == "inactive")]
        n = rng.randint(1, 5)
        return [rng.choice(pool) for _ in range(n)]

    def blk(depth: int) -> dict:
        g.nctx += 1
        cid = f"x{g.nctx}"
        b: dict[str, Any] = {"id": cid, "parent": rng.choice(("implicit", "explicit")), "catch": True}
        if rng.random() < 0.7:
            b["pre_ops"] = ops("inactive")
        body: list = []
        for _ in range(rng.randint(0, 4)):
            r = rng.random()
            if r < 0.35:
                body.append(["ops", ops("open"), None])
            elif r < 0.5:
                body.append(rpause(rng))
            elif r < 0.55:
                g.ncb += 1
                body.append(["race", {"id": f"q{g.ncb}"}])
            elif r < 0.6:
                g.ncb += 1
                body.append(["bglookup", {"id": f"q{g.ncb}", "dur": rng.choice((0.5, 1.0, 3.0)), "gap": [rng.choice((1, 2)), rng.choice((0.0, 0.25))]}])
                use_bg[0] = True
            elif r < 0.64 and depth >= 1:
                g.ncb += 1
                body.append(["outliving", {"id": f"q{g.ncb}", "ops": [rng.choice(("add_resource", "add_td", "get", "get_nowait")) for _ in range(rng.randint(1, 3))]}])
                use_bg[0] = True
            elif r < 0.8:
                cb = g.cb()
                if cb["kind"] != "sync" and rng.random() < 0.7:
                    cb["body"].insert(rng.randint(0, len(cb["body"])), ["ops", ops("closing")])
                    # keep 'raise' last if present
                    rs = [s for s in cb["body"] if s[0] == "raise"]
                    if rs:
                        cb["body"] = [s for s in cb["body"] if s[0] != "raise"] + rs[:1]
                body.append(["reg", cb])
            elif depth < 2 and g.nctx < 5:
                body.append(["child", blk(depth + 1)])
        b["body"] = body
        b["end"] = {"how": "return"} if rng.random() < 0.6 else {"how": "raise", "exc": g.exc_class()}
        if rng.random() < 0.8:
            b["post_ops"] = ops("closed")
        return b

    root = blk(0)
    if rng.random() < 0.3:
        g.nctx += 2
        root["body"].append(
            [
                "par",
                [
                    {
                        "name": "corrupt",
                        "body": [
                            [
                                "corrupt",
                                {
                                    "pid": f"x{g.nctx - 1}",
                                    "cid": f"x{g.nctx}",
                                    "how": rng.choice(("clean", "clean", "exception", "base_exception", "mid_teardown", "mid_teardown", "orphan", "explicit_foreign")),
                                    "falsy_parent": rng.random() < 0.15,
                                    "gap": [rng.choice((0, 1, 2)), rng.choice((0.0, 0.0, 0.5))],
                                    "churn": rng.choice((0, 0, 0, 2, 40, 64, 70, 130)),
                                },
                            ]
                        ],
                    }
                ],
            ]
        )
    if rng.random() < 0.2:
        g.nctx += 2
        g.ncb += 1
        leak_block = {
            "id": f"x{g.nctx - 1}",
            "parent": "implicit",
            "catch": True,
            "end": {"how": "return"},
            "body": [
                [
                    "reg",
                    {
                        "id": f"c{g.ncb}",
                        "route": "ctx",
                        "kind": "async",
                        "pexc": False,
                        "body": [rpause(rng), ["leak_child", {"cid": f"x{g.nctx}"}]],
                    },
                ]
            ],
        }
        root["body"].append(["par", [{"name": "leak", "body": [["child", leak_block]]}]])
    out: dict[str, Any] = {"root": root}
    if use_bg[0]:
        out["bg"] = True
    if rng.random() < 0.15:
        g.nctx += 2
        out["corrupt_root"] = {
            "pid": f"x{g.nctx - 1}",
            "cid": f"x{g.nctx}",
            "how": rng.choice(("clean", "clean", "exception", "base_exception")),
        }
    if rng.random() < (0.6 if use_bg[0] else 0.2):
        out["cancel"] = {"frac": round(rng.random(), 4)}
    return out


SIMPLEST = {"kind": "sync", "route": "ctx", "parent": "implicit"}
