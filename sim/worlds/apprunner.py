"""World W6 "apprunner": the real run_application() under the simulator (C15).

run_application() calls anyio.run() itself; the simulator enters through the backend /
backend_options arguments it forwards.  One ending per run: a CLI run() result or
exception, a component failing in any start-up phase, a start-up timeout, SIGINT/SIGTERM
at a seeded scheduler step during or after start-up, a service task crashing.
"""
from __future__ import annotations

import hashlib
import logging
import random
import signal
import sys
import warnings
from typing import Any

import anyio
import anyio.lowlevel
from anyio import CancelScope

from asphalt.core import add_teardown_callback, context_teardown, run_application, start_service_task

from ..core import HORIZON, LIVELOCKS, Sim, SimDeadlock, SimStepLimit, _LivelockGuard, backend_seam
from . import compreg
from .common import DTS, SimError, SimFatal, SimLookup, describe, is_cancel, leaves, pick, rpause

if sys.version_info < (3, 11):  # pragma: no cover
    from exceptiongroup import BaseExceptionGroup

NAME = "apprunner"
PROPS = ("C15",)

RETS: dict[str, Any] = {
    "none": None,
    "0": 0,
    "1": 1,
    "5": 5,
    "127": 127,
    "128": 128,
    "300": 300,
    "-1": -1,
    "str": "done",
    "empty_str": "",
    "float": 1.5,
    "zero_float": 0.0,
    "list": [],
    "dict": {},
    "tuple": (1,),
}


class _LogTap(logging.Handler):
    def __init__(self, sim: Sim) -> None:
        super().__init__(logging.INFO)
        self.sim = sim

    def emit(self, record: logging.LogRecord) -> None:
        try:
            msg = record.getMessage()
        except Exception:  # noqa: BLE001
            msg = str(record.msg)
        for key in ("Application started", "Received signal", "Application stopped", "Starting application", "Error during application startup"):
            if msg.startswith(key):
                self.sim.log("applog", msg=key)
                return


@context_teardown
async def _shared_ctd(h: Any, spec: dict):  # type: ignore[no-untyped-def]
    """ONE @context_teardown function used by several components (like the start() of a
    component class with several instances): each call owns its own generator."""
    sim = h.sim
    tid = spec["id"]
    sim.log("td_reg", td=tid)
    yield
    sim.log("td_run", td=tid)
    how = "done"
    try:
        await sim.pause(0, spec.get("dur", 0.0))
    except BaseException:
        how = "cancelled"
        raise
    finally:
        sim.log("td_done", td=tid, how=how)


class _Wide:
    """What one of many sibling components publishes and another one waits for."""


class H:
    def __init__(self, sim: Sim, plan: dict) -> None:
        self.sim = sim
        self.plan = plan
        self.callables: dict[str, Any] = {}
        self.by_cls: dict[type, tuple[str, dict]] = {}
        root = plan["root"]
        self.root_cls = compreg.CliRoot if plan.get("cli") else compreg.klass(root["slot"], True, True)
        self.by_cls[self.root_cls] = ("", root)
        for c in plan.get("children", ()):
            self.by_cls[compreg.klass(c["slot"], c.get("prepare") is not None, c.get("start") is not None)] = (c["alias"], c)
        self.watchdog_started = False
        self.signal_at: float | None = None

    def on_init(self, inst: Any, kwargs: dict) -> None:
        sim = self.sim
        path, n = self.by_cls[type(inst)]
        sim.log("init", path=path)
        if path == "":
            for c in self.plan.get("children", ()):
                cls = compreg.klass(c["slot"], c.get("prepare") is not None, c.get("start") is not None)
                inst.add_component(c["alias"], cls)
        if n.get("fail_init"):
            # KeyboardInterrupt / SystemExit raised by a constructor reach run_application's
            # start-up handler bare (no task group in between): still a start-up failure
            e: BaseException = {"KI": KeyboardInterrupt, "SE": lambda m: SystemExit(3)}.get(n["fail_init"], SimError)(f"init {path}")
            sim.fault("raise_in_constructor")
            sim.log("fail", path=path, phase="creating")
            raise e

    def eager_start(self, inst: Any) -> int:
        return 0

    async def on_phase(self, inst: Any, phase: str, skip: int = 0) -> None:
        sim = self.sim
        path, n = self.by_cls[type(inst)]
        sim.log("phase_begin", path=path, phase=phase)
        how = "done"
        try:
            if path == "" and phase == "prepare" and not self.watchdog_started:
                self.watchdog_started = True
                await start_service_task(self.watchdog, "h:watchdog")
                if self.signal_at is not None:
                    await start_service_task(self.signaller, "h:signaller")
            await self.acts(n.get(phase) or (), path, phase)
        except BaseException as e:
            how = "cancelled" if is_cancel(e) else "failed"
            raise
        finally:
            sim.log("phase_end", path=path, phase=phase, how=how)

    async def signaller(self) -> None:
        """The process sends itself a signal at a planned virtual instant after start-up."""
        sim = self.sim
        sig = self.plan["signal"]
        delay = self.signal_at - sim.now()
        if delay > 0:
            await anyio.sleep(delay)
        for _ in range(sig.get("ticks", 0)):
            await anyio.lowlevel.checkpoint()
        signum = signal.SIGTERM if sig["sig"] == "SIGTERM" else signal.SIGINT
        ok = sim.deliver_signal(signum)
        sim.log("signal_fire", sig=sig["sig"], delivered=ok)
        await anyio.sleep(1e6)

    async def watchdog(self) -> None:
        sim = self.sim
        await anyio.sleep(HORIZON)
        sim.log("deadlock")
        sim.deadlock = True
        sim.deliver_signal(signal.SIGTERM)
        await anyio.sleep(HORIZON)
        raise RuntimeError("harness watchdog: application did not stop")

    async def acts(self, acts: Any, path: str, phase: str) -> None:
        sim = self.sim
        for a in acts:
            op = a[0]
            if op == "p":
                await sim.pause(a[1], a[2])
            elif op == "td":
                self.td(a[1])
            elif op == "dup_res":
                # a publication that is rejected (the name is taken) and handled: the
                # teardown callback that came with it was never registered
                from asphalt.core import ResourceConflict, add_resource

                rid = a[1]

                def ok_cb(rid: str = rid) -> None:
                    sim.log("td_run", td=rid)
                    sim.log("td_done", td=rid, how="done")

                def rogue_cb(rid: str = rid) -> None:
                    sim.log("td_run", td=rid + "_rejected")

                add_resource(object(), rid, teardown_callback=ok_cb)
                sim.log("td_reg", td=rid)
                try:
                    add_resource(object(), rid, teardown_callback=rogue_cb)
                except ResourceConflict:
                    pass
            elif op == "td_again":
                # the very same callable once more (e.g. a shared flush() registered by two
                # components): two registrations, two calls, each in its own LIFO slot
                cb_ = self.callables.get(a[1])
                if cb_ is not None:
                    add_teardown_callback(cb_)
                    sim.log("td_reg", td=a[1])
            elif op == "ctd":
                await _shared_ctd(self, a[1])
            elif op == "svc":
                await self.svc(a[1])
            elif op == "stall":
                sim.stall(a[1])
            elif op == "pub":
                from asphalt.core import add_resource as _add

                _add(_Wide(), a[1])
                sim.log("pub", name=a[1], path=path)
            elif op == "wait":
                from asphalt.core import get_resource as _get

                sim.log("wait_begin", name=a[1], path=path)
                await _get(_Wide, a[1])
                sim.log("wait_end", name=a[1], path=path)
            elif op == "fail":
                e = (SimError if a[1] == "SimError" else SimLookup)(f"{phase} {path}")
                sim.fault("raise_in_" + phase)
                sim.log("fail", path=path, phase=phase)
                raise e

    def td(self, spec: dict) -> None:
        sim = self.sim
        tid = spec["id"]
        nested = spec.get("nested")
        h = self

        def body_sync() -> None:
            sim.log("td_run", td=tid)
            if nested:
                h.td(nested)

        async def rest() -> None:
            how = "done"
            try:
                await sim.pause(0, spec.get("dur", 0.0))
            except BaseException:
                how = "cancelled"
                raise
            finally:
                sim.log("td_done", td=tid, how=how)

        kind = spec.get("kind") or ("async" if spec.get("async") else "sync")
        if kind == "async":

            async def cb() -> None:
                body_sync()
                await rest()

        elif kind == "sync_aw":
            # a plain function handing back a coroutine

            def cb() -> Any:  # type: ignore[misc]
                body_sync()
                return rest()

        elif kind == "nested_ctx":
            # the callback does its awaiting work as the teardown of a scratch context of
            # its own: when the application goes down under a cancellation this callback
            # fails with a BaseExceptionGroup of cancellations (neither an Exception nor a
            # bare cancellation) - the callbacks registered before it must still run (W15_C15_1)

            async def cb() -> None:  # type: ignore[misc]
                from asphalt.core import Context

                body_sync()
                async with Context():
                    add_teardown_callback(rest)

        elif kind == "aw_obj":
            # a plain function handing back an awaitable that is not a coroutine

            class _Aw:
                def __await__(self) -> Any:
                    return rest().__await__()

            def cb() -> Any:  # type: ignore[misc]
                body_sync()
                return _Aw()

        else:

            def cb() -> None:  # type: ignore[misc]
                body_sync()
                sim.log("td_done", td=tid, how="done")

        add_teardown_callback(cb)
        self.callables[tid] = cb
        sim.log("td_reg", td=tid)

    async def svc(self, spec: dict) -> None:
        sim = self.sim
        name = spec["name"]
        flag = [1]

        async def run_body(task_status: Any) -> None:
            sim.log("svc_start", svc=name)
            try:
                if task_status is not None:
                    # a start handshake that takes a while: start_service_task() returns -
                    # and the task's finalizer takes its place in the teardown order - only
                    # once started() has been called
                    await sim.pause(0, spec["handshake"])
                    task_status.started()
                if spec.get("crash_at") is not None:
                    await anyio.sleep(spec["crash_at"])
                    e = (SimError if spec.get("cls", "SimError") == "SimError" else SimFatal)(f"crash {name}")
                    e.tag = f"X:{name}"  # type: ignore[attr-defined]
                    sim.fault("task_crash")
                    sim.log("svc_crash", svc=name, tag=e.tag)  # type: ignore[attr-defined]
                    raise e
                if spec.get("action") in ("builtin", "aw_obj"):
                    # told to stop through a built-in bound method (list.clear) given as
                    # the teardown action
                    for _ in range(2000):  # (polls for a bounded stretch of virtual time)
                        if not flag:
                            break
                        await anyio.sleep(0.25)
                    else:
                        await anyio.sleep_forever()
                else:
                    await anyio.sleep_forever()
            finally:
                sim.log("svc_end", svc=name)

        if spec.get("handshake") is not None:

            async def body(*, task_status: Any) -> None:
                await run_body(task_status)

        else:

            async def body() -> None:  # type: ignore[misc]
                await run_body(None)

        sim.log("svc_call", svc=name)
        action = spec.get("action")
        if action in ("araise", "sraise"):
            # a teardown action that fails (when called, or only when awaited): the task is
            # cancelled instead and teardown goes on as if nothing had happened
            if action == "araise":

                async def act() -> None:
                    sim.log("svc_action", svc=name)
                    await anyio.lowlevel.checkpoint()
                    raise SimError(f"teardown action of {name}")

            else:

                def act() -> None:  # type: ignore[misc]
                    sim.log("svc_action", svc=name)
                    raise SimError(f"teardown action of {name}")

            await start_service_task(body, name, teardown_action=act)
        elif action == "builtin":
            await start_service_task(body, name, teardown_action=flag.clear)
        elif action == "aw_obj":
            # a plain callable returning an awaitable *object* (not a coroutine) whose
            # awaiting is what tells the service to stop
            async def _stop() -> None:
                sim.log("svc_action", svc=name)
                await anyio.lowlevel.checkpoint()
                flag.clear()

            class _AwStop:
                def __await__(self_) -> Any:
                    return _stop().__await__()

            await start_service_task(body, name, teardown_action=lambda: _AwStop())
        else:
            await start_service_task(body, name)
        sim.log("svc_reg", svc=name)

    async def on_run(self, inst: Any) -> Any:
        sim = self.sim
        r = self.plan.get("run", {})
        sim.log("run_begin")
        try:
            await self.acts(r.get("acts", ()), "", "run")
            if r.get("raises"):
                cls = {"SimError": SimError, "SimFatal": SimFatal, "SimLookup": SimLookup}[r["raises"]]
                e = cls("run failed")
                e.tag = "X:run"  # type: ignore[attr-defined]
                sim.fault("raise_in_run")
                sim.log("run_raise", tag="X:run")
                raise e
            sim.log("run_return", ret=r.get("ret", "none"))
            return RETS[r.get("ret", "none")]
        except BaseException as e:
            if is_cancel(e):
                sim.log("run_cancelled")
            raise


def run_once(plan: dict, fire_step: int | None, trace_steps: bool = True, signal_at: float | None = None) -> Sim:
    sim = Sim(plan, trace_steps=trace_steps)
    sim.t0 = 0.0
    h = H(sim, plan)
    h.signal_at = signal_at
    compreg.CURRENT = h
    sig = plan.get("signal")
    if sig and fire_step is not None:
        signum = signal.SIGTERM if sig["sig"] == "SIGTERM" else signal.SIGINT

        def fire() -> None:
            ok = sim.deliver_signal(signum)
            sim.log("signal_fire", sig=sig["sig"], delivered=ok)
            if not ok and sim.step < fire_step + 400:
                # no handler installed yet (a real signal now would kill the process, which
                # is outside the property): it arrives as soon as one exists
                sim.inject_at_step(sim.step + 1, fire)

        sim.inject_at_step(fire_step, fire)
    lg = logging.getLogger("asphalt.core")
    old_level = lg.level
    tap = _LogTap(sim)
    lg.addHandler(tap)
    lg.setLevel(logging.INFO)
    al = logging.getLogger("asphalt")
    if not al.handlers:
        al.addHandler(logging.NullHandler())
        al.propagate = False
    logging.getLogger("asyncio").setLevel(logging.CRITICAL)
    old_sigs = {s: signal.getsignal(s) for s in (signal.SIGINT, signal.SIGTERM)}

    def base_handler(signum: int, frame: Any) -> None:
        # what the process-level default would do is outside the simulation (it would kill
        # the worker): a signal that reaches this handler was not consumed by asphalt
        sim.log("signal_unhandled", sig=int(signum))

    base_handler._verif_base = True  # type: ignore[attr-defined]
    for s_ in (signal.SIGINT, signal.SIGTERM):
        signal.signal(s_, base_handler)
    try:
        with warnings.catch_warnings(record=True) as wl:
            warnings.simplefilter("always")
            with backend_seam(sim) as (backend, options), _LivelockGuard(sim):
                try:
                    kw: dict[str, Any] = {}
                    if "timeout" in plan:
                        kw["start_timeout"] = plan["timeout"]
                    run_application(h.root_cls, {}, backend=backend, backend_options=options, logging=None, **kw)
                    sim.log("ra_end", outcome="return", code=None, exc=None)
                except SystemExit as e:
                    sim.log("ra_end", outcome="exit", code=e.code if isinstance(e.code, (int, type(None))) else repr(e.code), exc=None)
                except SimDeadlock:
                    sim.deadlock = True
                    sim.log("ra_end", outcome="deadlock", code=None, exc=None)
                except SimStepLimit:
                    sim.step_limit = True
                    sim.log("ra_end", outcome="step_limit", code=None, exc=None)
                except BaseException as e:  # noqa: BLE001
                    from ..trio_rt import deadlock_of

                    if deadlock_of(e):
                        sim.deadlock = True
                        sim.log("ra_end", outcome="deadlock", code=None, exc=None)
                    else:
                        sim.log("ra_end", outcome="raise", code=None, exc=_desc(e))
                if sim.livelock is not None:
                    LIVELOCKS.append({"step": sim.livelock, "exc": None})
                    sim.crashed = f"livelock at step {sim.livelock}"
        sim.user["warnings"] = [str(w.message)[:60] for w in wl if "exit code" in str(w.message) or "run() must return" in str(w.message)]
    finally:
        lg.removeHandler(tap)
        lg.setLevel(old_level)
        compreg.CURRENT = None
        for s, hnd in old_sigs.items():
            try:
                signal.signal(s, hnd)
            except Exception:  # noqa: BLE001
                pass
    return sim


def _desc(e: BaseException) -> Any:
    """describe() without cancellation detection (no event loop is running any more)."""
    if isinstance(e, BaseExceptionGroup):
        return {"g": [_desc(x) for x in e.exceptions]}
    tag = getattr(e, "tag", None)
    if tag:
        return tag
    return f"other:{type(e).__name__}:{str(e)[:60]}"


def execute(plan: dict, *, want_digest: bool = False, want_trace: bool = False) -> dict:
    fire_step = None
    signal_at = None
    sig = plan.get("signal")
    if sig:
        pilot_plan = dict(plan)
        pilot_plan.pop("signal")
        # fault-free pilot of the same plan (a non-CLI application without a signal idles
        # until the harness watchdog ends it)
        pilot = run_once(pilot_plan, None, trace_steps=False)
        started = next((r for r in pilot.trace if r[4] == "applog" and r[5]["msg"] == "Application started"), None)
        if sig["phase"] == "startup":
            hi = started[1] if started is not None else pilot.step
            fire_step = 1 + int(sig["frac"] * max(hi - 1, 0))
        else:
            t_started = started[2] if started is not None else max((r[2] for r in pilot.trace), default=0.0)
            signal_at = t_started + sig.get("offset", 0.0)
    sim = run_once(plan, fire_step, signal_at=signal_at)
    viol = oracle(sim, plan)
    res = {
        "violations": viol,
        "faults": dict(sim.faults),
        "probes": dict(sim.probes),
        "steps": sim.step,
        "vtime": max((r[2] for r in sim.trace if r[2] < 1e6), default=0.0),
        "sig": sim.signature(),
        "deadlock": sim.deadlock,
        "crashed": sim.crashed,
        "step_limit": sim.step_limit,
        "nontrivial": True,
        "final": _final(sim),
        "fire_step": fire_step,
    }
    if want_digest:
        res["digest"] = sim.digest()
    if want_trace:
        res["trace"] = sim.dump_trace()
    return res


def _final(sim: Sim) -> str:
    h = hashlib.blake2b(digest_size=8)
    for r in sim.trace:
        if r[4] in ("ra_end", "td_run"):
            h.update(repr((r[4], sorted((k, str(v)) for k, v in r[5].items()))).encode())
    return h.hexdigest()


# =============================================================================== oracle
def oracle(sim: Sim, plan: dict) -> list[dict]:
    V: list[dict] = []

    def v(rule: str, key: str, msg: str) -> None:
        V.append({"rule": rule, "key": key, "msg": msg})

    if sim.step_limit:
        return V
    tr = sim.trace
    end = next((r for r in tr if r[4] == "ra_end"), None)
    if end is None:
        v("C15.deadlock", "no_end", "run_application never ended")
        return V
    sig = plan.get("signal")
    cli = bool(plan.get("cli"))
    run = plan.get("run", {})

    # ------------------------------------------------------------ teardown completeness
    regs = [r[5]["td"] for r in tr if r[4] == "td_reg"]
    runs = [r[5]["td"] for r in tr if r[4] == "td_run"]
    late = [r[5]["td"] for r in tr if r[4] in ("td_run", "td_done") and r[0] > end[0]]
    if late:
        v("C15.teardown", "after_return", f"teardown callbacks {late} ran after run_application had ended")
    # expected order: a stack; callbacks registered during teardown go on top
    stack: list = []
    ok_order = True
    ran: list = []
    for r in tr:
        if r[4] == "td_reg":
            stack.append(r[5]["td"])
        elif r[4] == "td_run":
            ran.append(r[5]["td"])
            if not stack or stack[-1] != r[5]["td"]:
                ok_order = False
                if r[5]["td"] in stack:
                    stack.remove(r[5]["td"])
            else:
                stack.pop()
    missing = sorted({t for t in regs if ran.count(t) < regs.count(t)})
    dup = sorted({t for t in ran if ran.count(t) > regs.count(t)})
    ending = _ending(plan, tr)
    sim.probe("ending:" + ending + (":cli" if plan.get("cli") else ":service"))
    if missing:
        v("C15.teardown", f"skipped@{ending}", f"teardown callbacks {missing} never ran (ending: {ending}); registered {regs}, ran {ran}")
    if dup:
        v("C15.teardown", f"repeated@{ending}", f"teardown callbacks {dup} ran more than once (ending: {ending})")
    if not ok_order and not missing and not dup:
        v("C15.teardown", f"order@{ending}", f"teardown callbacks ran {ran}, registered {regs} (must be reverse order) (ending: {ending})")
    done = [r[5]["td"] for r in tr if r[4] == "td_done" and r[0] < end[0]]
    unfinished = sorted({t for t in ran if done.count(t) < ran.count(t)})
    if unfinished and not late:
        v(
            "C15.teardown",
            f"incomplete@{ending}",
            f"teardown callbacks {unfinished} were called but what they returned was never awaited to the end "
            f"before run_application ended (ending: {ending})",
        )
    rogue = [r[5]["td"] for r in tr if r[4] == "td_run" and str(r[5]["td"]).endswith("_rejected")]
    if rogue:
        v("C15.teardown", f"rejected_ran@{ending}", f"teardown callbacks {rogue} of add_resource() calls that were rejected ran (ending: {ending})")
    # a callback registered while another component's start_service_task() was still in its
    # start handshake is older than that task's finalizer: it runs only after the task ended
    for sc in [r for r in tr if r[4] == "svc_call"]:
        sr = next((r for r in tr if r[4] == "svc_reg" and r[5]["svc"] == sc[5]["svc"]), None)
        se = next((r for r in tr if r[4] == "svc_end" and r[5]["svc"] == sc[5]["svc"]), None)
        if sr is None or se is None:
            continue
        for tdr in [r for r in tr if r[4] == "td_reg" and sc[0] < r[0] < sr[0] and regs.count(r[5]["td"]) == 1]:
            run_ = next((r for r in tr if r[4] == "td_run" and r[5]["td"] == tdr[5]["td"] and r[0] > tdr[0]), None)
            if run_ is not None and run_[0] < se[0] and ending in ("run", "signal_after", "signal_ambiguous"):
                v(
                    "C15.teardown",
                    f"order@{ending}",
                    f"teardown callback {tdr[5]['td']} was registered before service task {sc[5]['svc']} had finished starting "
                    f"(its finalizer is younger) but ran while that task was still alive (ending: {ending})",
                )
    svcs = [r[5]["svc"] for r in tr if r[4] == "svc_start"]
    ended = [r[5]["svc"] for r in tr if r[4] == "svc_end" and r[0] < end[0]]
    if sorted(svcs) != sorted(ended):
        v("C15.teardown", f"service_running@{ending}", f"service tasks {sorted(set(svcs) - set(ended))} still running when run_application ended")
    if sim.deadlock:
        v("C15.deadlock", ending, f"application did not stop by itself (ending: {ending}); the harness watchdog had to stop it")
        return V

    # ------------------------------------------------------------ outcome table
    d = end[5]
    got = (d["outcome"], d["code"], d["exc"])

    def expect(*allowed: tuple) -> None:
        if not any(_match(got, a) for a in allowed):
            v("C15.outcome", ending, f"ending {ending}: run_application gave {got}, documented outcome is one of {list(allowed)}")

    RET = ("return", None, None)

    def EXIT(n: int) -> tuple:
        return ("exit", n, None)

    if ending == "startup_failure":
        expect(EXIT(1))
    elif ending == "startup_timeout":
        expect(EXIT(1))
        # ... which is the documented outcome of a start-up that takes too long - not of one
        # that has nothing in it that could
        bound = 0.0
        for n_ in [plan["root"]] + list(plan.get("children", ())):
            for ph_ in ("prepare", "start"):
                for a_ in n_.get(ph_) or ():
                    if a_[0] == "p":
                        bound += a_[2]
                    elif a_[0] == "svc":
                        bound += a_[1].get("handshake", 0.0) or 0.0
                    elif a_[0] == "stall":
                        bound += a_[1]
        limit = plan.get("timeout", 10)
        if plan.get("kind") in ("run", "signal_after", "crash_after") and (limit is None or bound + 0.5 < limit):
            v("C15.outcome", "spurious_startup_timeout", f"start-up (at most {bound}s of work, all dependencies between the components satisfiable) did not finish within the timeout of {limit}s: run_application gave {got}")
    elif ending == "signal_startup":
        expect(EXIT(1))
    elif ending == "signal_ambiguous":
        if cli:
            expect(EXIT(1), *_run_expect(run))
        else:
            expect(EXIT(1), RET)
    elif ending == "signal_after":
        if cli:
            expect(*_run_expect(run))
        else:
            expect(RET)
    elif ending == "crash_startup":
        tag = next(r[5]["tag"] for r in tr if r[4] == "svc_crash")
        expect(EXIT(1), ("raise", None, tag))
    elif ending == "crash_after":
        tag = next(r[5]["tag"] for r in tr if r[4] == "svc_crash")
        expect(("raise", None, tag))
    elif ending == "run":
        expect(*_run_expect(run))
    elif ending == "idle":
        pass
    return V


def _run_expect(run: dict) -> list:
    if run.get("raises"):
        return [("raise", None, "X:run")]
    ret = RETS[run.get("ret", "none")]
    if ret is None or (isinstance(ret, int) and ret == 0):
        return [("return", None, None)]
    if isinstance(ret, int) and 1 <= ret <= 127:
        return [("exit", ret, None)]
    return [("exit", 1, None)]


def _match(got: tuple, want: tuple) -> bool:
    if got[0] != want[0]:
        return False
    if want[0] == "exit":
        return got[1] == want[1]
    if want[0] == "raise":
        lv = leaves(got[2])
        return got[2] == want[2] or (lv == [want[2]] and not _is_plain_exception(want[2]))
    return True


def _is_plain_exception(tag: str) -> bool:
    return False if tag is None else tag.startswith("X:") and False


def _ending(plan: dict, tr: list) -> str:
    """Classify how this run ended from the plan and the recorded history."""
    started = next((r for r in tr if r[4] == "applog" and r[5]["msg"] == "Application started"), None)
    received = next((r for r in tr if r[4] == "applog" and r[5]["msg"] == "Received signal"), None)
    crash = next((r for r in tr if r[4] == "svc_crash"), None)
    fail = next((r for r in tr if r[4] == "fail"), None)
    phases_total = 2 + sum((c.get("prepare") is not None) + (c.get("start") is not None) for c in plan.get("children", ()))
    if fail is not None and (received is None or fail[0] < received[0]) and (crash is None or fail[0] < crash[0]):
        return "startup_failure"
    first = min([x for x in (received, crash) if x is not None], key=lambda r: r[0], default=None)
    if first is received and received is not None:
        if started is not None and started[0] < received[0]:
            return "signal_after"
        if started is None:
            return "signal_startup"
        # "Application started" was logged although the signal had been received before:
        # legitimate only if start-up was already past its last checkpoint when the signal
        # handler cancelled the start-up scope.  A phase that kept sleeping through the
        # cancellation (finished normally at a later virtual instant) proves it was not.
        for r in tr:
            if r[0] > received[0] and r[4] == "phase_end" and r[5]["how"] == "done" and r[2] > received[2] + 1e-9:
                return "signal_startup"
        return "signal_ambiguous"
    if first is crash and crash is not None:
        if started is not None and started[0] < crash[0]:
            return "crash_after"
        return "crash_startup"
    if started is None:
        return "startup_timeout"
    if plan.get("cli"):
        return "run"
    return "idle"


# ============================================================================ generator
def gen(rng: random.Random, tier: str, prop: str) -> dict:
    backend = "asyncio" if rng.random() < 0.6 else "trio"
    slots = list(range(compreg.NSLOTS))
    rng.shuffle(slots)
    ntd = [0]
    nsvc = [0]

    def acts(n: int, allow_svc: bool = True) -> list:
        out: list = []
        for _ in range(n):
            r = rng.random()
            if r < 0.04:
                ntd[0] += 1
                out.append(["dup_res", f"cb{ntd[0]}"])
            elif r < 0.35:
                out.append(rpause(rng, 0.3))
            elif r < 0.8:
                ntd[0] += 1
                spec: dict[str, Any] = {"id": f"cb{ntd[0]}", "async": rng.random() < 0.5, "dur": rng.choice(DTS[:5])}
                if rng.random() < 0.25:
                    spec["kind"] = rng.choice(("sync_aw", "aw_obj", "nested_ctx"))
                if rng.random() < 0.2:
                    ntd[0] += 1
                    spec["nested"] = {"id": f"cb{ntd[0]}", "async": rng.random() < 0.5, "dur": rng.choice(DTS[:4])}
                out.append(["td", spec])
                if rng.random() < 0.12 and not spec.get("nested"):
                    # ... and, a little later, the same callable again
                    out.append(rpause(rng, 0.3))
                    ntd[0] += 1
                    out.append(["td", {"id": f"cb{ntd[0]}", "async": False, "dur": 0.0}])
                    out.append(["td_again", spec["id"]])
                elif rng.random() < 0.12:
                    ntd[0] += 1
                    out.append(["ctd", {"id": f"cb{ntd[0]}", "dur": rng.choice(DTS[:4])}])
            elif allow_svc and nsvc[0] < 3:
                nsvc[0] += 1
                sv: dict[str, Any] = {"name": f"s{nsvc[0]}"}
                if rng.random() < 0.4:
                    sv["action"] = rng.choice(("araise", "sraise", "builtin", "aw_obj"))
                if rng.random() < 0.3:
                    sv["handshake"] = rng.choice((0.25, 0.5, 1.0))
                out.append(["svc", sv])
        return out

    cli = rng.random() < 0.5
    root: dict[str, Any] = {"slot": slots.pop(), "prepare": acts(rng.randint(0, 3)), "start": acts(rng.randint(0, 3))}
    children = []
    scale = rng.random()
    wide = scale < 0.03
    bulk = 0.03 <= scale < 0.09
    if wide:
        # scale knob: many sibling components, an early one waiting for what a late one
        # publishes (they are all started concurrently, whatever their number)
        nch = rng.randint(17, 40)
        pub_i = rng.randint(max(16, nch - 6), nch - 1)
        wait_i = rng.randint(0, 3)
        for i in range(nch):
            c = {"alias": f"c{i}", "slot": slots.pop(), "prepare": None, "start": acts(rng.choice((0, 0, 1)), allow_svc=False)}
            if i == pub_i:
                c["start"].append(["pub", "wide"])
            if i == wait_i:
                c["start"].insert(0, ["wait", "wide"])
            children.append(c)
    else:
        for i in range(rng.choice((0, 1, 1, 2, 3))):
            c = {"alias": f"c{i}", "slot": slots.pop()}
            c["prepare"] = acts(rng.randint(0, 3)) if rng.random() < 0.6 else None
            c["start"] = acts(rng.randint(0, 3)) if rng.random() < 0.7 else None
            children.append(c)
    if bulk:
        # scale knob: dozens of teardown callbacks on the root context
        many = []
        for _ in range(rng.randint(30, 60)):
            ntd[0] += 1
            many.append(["td", {"id": f"cb{ntd[0]}", "async": rng.random() < 0.4, "dur": 0.0}])
        tgt = rng.choice([root] + children)
        ph_ = rng.choice([p_ for p_ in ("prepare", "start") if tgt.get(p_) is not None] or ["start"])
        if tgt.get(ph_) is None:
            tgt[ph_] = []
        pos_ = rng.randint(0, len(tgt[ph_]))
        tgt[ph_][pos_:pos_] = many
    plan: dict[str, Any] = {
        "v": 1,
        "world": NAME,
        "property": prop,
        "backend": backend,
        "sched": {"policy": rng.choice(("uniform", "coin", "prio", "fifo")), "seed": rng.getrandbits(32)},
        "cli": cli,
        "root": root,
        "children": children,
    }
    if rng.random() < 0.5:
        plan["timeout"] = rng.choice((10, 20, 60, None))
    nodes = [root] + children
    kinds = {
        "run": 3.0 if cli else 0.0,
        "fail": 2.0,
        "timeout": 1.2,
        "signal_startup": 1.5,
        "signal_after": 2.0,
        "crash_startup": 1.0,
        "crash_after": 1.5,
    }
    if wide:
        for k_ in ("fail", "timeout", "signal_startup", "crash_startup"):
            kinds[k_] = 0.0
    if bulk:
        kinds["crash_after"] *= 3
    kind = pick(rng, kinds)
    plan["kind"] = kind
    if cli:
        ret = rng.choice(sorted(RETS))
        run: dict[str, Any] = {"ret": ret, "acts": acts(rng.randint(0, 2), allow_svc=False)}
        if kind == "run" and rng.random() < 0.3:
            run["raises"] = pick(rng, {"SimError": 3, "SimLookup": 1, "SimFatal": 1})
        if kind != "run":
            # run() must outlive the injected ending
            run["acts"].append(["p", 0, 50.0])
        plan["run"] = run
    if kind == "fail":
        n = rng.choice(nodes)
        phases = ["creating"] + [ph for ph in ("prepare", "start") if n.get(ph) is not None]
        ph = rng.choice(phases)
        if ph == "creating":
            n["fail_init"] = pick(rng, {"SimError": 4, "KI": 1, "SE": 1})
        else:
            pos = rng.randint(0, len(n[ph]))
            n[ph].insert(pos, ["fail", rng.choice(("SimError", "SimLookup"))])
            del n[ph][pos + 1 :]
    elif kind == "timeout":
        n = rng.choice([m for m in nodes if m.get("prepare") is not None or m.get("start") is not None])
        ph = rng.choice([p for p in ("prepare", "start") if n.get(p) is not None])
        tau = rng.choice((0.5, 2.0, 10))
        plan["timeout"] = tau
        n[ph].insert(rng.randint(0, len(n[ph])), ["p", 0, tau * rng.choice((2, 3, 10))])
        if rng.random() < 0.2:
            n[ph].insert(0, ["stall", rng.choice((0.5, 3.0))])
    elif kind in ("signal_startup", "signal_after"):
        plan["signal"] = {
            "sig": rng.choice(("SIGTERM", "SIGINT")),
            "frac": round(rng.random(), 4),
            "phase": "startup" if kind == "signal_startup" else "after",
            "offset": rng.choice((0.0, 0.0, 0.25, 1.0, 5.0)),
            "ticks": rng.choice((0, 1, 2, 3, 5)),
        }
    elif kind in ("crash_startup", "crash_after"):
        n = rng.choice([m for m in nodes if m.get("prepare") is not None or m.get("start") is not None])
        ph = rng.choice([p for p in ("prepare", "start") if n.get(p) is not None])
        nsvc[0] += 1
        total = sum(a[2] for m in nodes for p in ("prepare", "start") for a in (m.get(p) or ()) if a[0] == "p")
        if kind == "crash_startup":
            at = rng.choice((0.0, 0.25, 0.5))
            # keep start-up busy long enough for the crash to land inside it
            root["start"].append(["p", 0, at + rng.choice((0.5, 2.0))])
        else:
            at = total + rng.choice((1.0, 5.0))
        n[ph].insert(rng.randint(0, len(n[ph])), ["svc", {"name": f"s{nsvc[0]}", "crash_at": at, "cls": pick(rng, {"SimError": 3, "SimFatal": 1})}])
    if not cli and kind in ("fail", "timeout", "crash_startup", "crash_after", "run"):
        pass
    # a non-CLI application without any ending would idle until the watchdog: give it a late SIGTERM
    if not cli and kind in ("fail", "timeout", "crash_startup", "crash_after") and rng.random() < 0.0:
        pass
    if not cli and "signal" not in plan and kind not in ("fail", "timeout", "crash_after", "crash_startup"):
        plan["signal"] = {"sig": "SIGTERM", "frac": 0.5, "phase": "after", "offset": 1.0, "ticks": 1}
    return plan


SIMPLEST: dict = {}
