"""Resource type universe and the catalogue of @inject-decorated functions (C19).

`from __future__ import annotations` makes every annotation here a string forward
reference, so inject() has to resolve them lazily on first call - the path the property
talks about ("string forward references").
"""
from __future__ import annotations

from typing import Any, Optional, Union

from asphalt.core import context_teardown, inject, resource


class A:
    def __init__(self, tag: str = "") -> None:
        self.tag = tag


class B:
    def __init__(self, tag: str = "") -> None:
        self.tag = tag


class C:
    def __init__(self, tag: str = "") -> None:
        self.tag = tag


class D:
    def __init__(self, tag: str = "") -> None:
        self.tag = tag


class Val:
    """A value registered under explicitly given types."""

    def __init__(self, tag: str = "") -> None:
        self.tag = tag


class FalsyVal(Val):
    """A perfectly good resource object that is falsy (like an empty container or 0)."""

    def __bool__(self) -> bool:
        return False

    def __len__(self) -> int:
        return 0


L = list[int]  # a generic alias used as a resource type

TYPES: dict[str, Any] = {"A": A, "B": B, "C": C, "D": D, "L": L}
NAMES = ("default", "a", "b")

from contextvars import ContextVar  # noqa: E402

CALL: ContextVar[int] = ContextVar("verif_inject_call", default=0)
BODY_RAN: set[int] = set()

# ------------------------------------------------------------------ catalogue
# name -> (function, is_async, deps [(param, type, resname, optional)], shape)
CATALOGUE: dict[str, tuple] = {}


def _reg(name: str, fn: Any, is_async: bool, deps: list, shape: str) -> None:
    CATALOGUE[name] = (fn, is_async, deps, shape)


# -- one dependency, keyword-only, extra pass-through positional + keyword
@inject
async def a_A_default(x: Any, *, r: A = resource(), k: Any = None) -> Any:
    BODY_RAN.add(CALL.get())
    return {"x": x, "k": k, "r": [r]}


_reg("a_A_default", a_A_default, True, [("r", "A", "default", False)], "kwonly")


@inject
def s_A_default(x: Any, *, r: A = resource(), k: Any = None) -> Any:
    BODY_RAN.add(CALL.get())
    return {"x": x, "k": k, "r": [r]}


_reg("s_A_default", s_A_default, False, [("r", "A", "default", False)], "kwonly")


# -- positional-or-keyword injected parameter
@inject
async def a_B_a(x: Any, r: B = resource("a"), k: Any = None) -> Any:
    BODY_RAN.add(CALL.get())
    return {"x": x, "k": k, "r": [r]}


_reg("a_B_a", a_B_a, True, [("r", "B", "a", False)], "poskw")


@inject
def s_B_a(x: Any, r: B = resource("a"), k: Any = None) -> Any:
    BODY_RAN.add(CALL.get())
    return {"x": x, "k": k, "r": [r]}


_reg("s_B_a", s_B_a, False, [("r", "B", "a", False)], "poskw")


# -- Optional[T]
@inject
async def a_C_b_opt(x: Any, *, r: Optional[C] = resource("b"), k: Any = None) -> Any:
    BODY_RAN.add(CALL.get())
    return {"x": x, "k": k, "r": [r]}


_reg("a_C_b_opt", a_C_b_opt, True, [("r", "C", "b", True)], "optional")


@inject
def s_C_b_opt(x: Any, *, r: Optional[C] = resource("b"), k: Any = None) -> Any:
    BODY_RAN.add(CALL.get())
    return {"x": x, "k": k, "r": [r]}


_reg("s_C_b_opt", s_C_b_opt, False, [("r", "C", "b", True)], "optional")


# -- PEP 604 T | None
@inject
async def a_D_default_pep604(x: Any, *, r: D | None = resource(), k: Any = None) -> Any:
    BODY_RAN.add(CALL.get())
    return {"x": x, "k": k, "r": [r]}


_reg("a_D_default_pep604", a_D_default_pep604, True, [("r", "D", "default", True)], "pep604")


@inject
def s_D_default_pep604(x: Any, *, r: D | None = resource(), k: Any = None) -> Any:
    BODY_RAN.add(CALL.get())
    return {"x": x, "k": k, "r": [r]}


_reg("s_D_default_pep604", s_D_default_pep604, False, [("r", "D", "default", True)], "pep604")


# -- Union[T, None]
@inject
async def a_A_a_union(x: Any, *, r: Union[A, None] = resource("a"), k: Any = None) -> Any:
    BODY_RAN.add(CALL.get())
    return {"x": x, "k": k, "r": [r]}


_reg("a_A_a_union", a_A_a_union, True, [("r", "A", "a", True)], "union")


# -- None listed first: `None | T`, Union[None, T]
@inject
async def a_B_b_nonefirst(x: Any, *, r: None | B = resource("b"), k: Any = None) -> Any:
    BODY_RAN.add(CALL.get())
    return {"x": x, "k": k, "r": [r]}


_reg("a_B_b_nonefirst", a_B_b_nonefirst, True, [("r", "B", "b", True)], "nonefirst")


@inject
def s_A_a_union_nonefirst(x: Any, *, r: Union[None, A] = resource("a"), k: Any = None) -> Any:
    BODY_RAN.add(CALL.get())
    return {"x": x, "k": k, "r": [r]}


_reg("s_A_a_union_nonefirst", s_A_a_union_nonefirst, False, [("r", "A", "a", True)], "nonefirst")


# -- @inject stacked on @context_teardown (an injected, start()-style generator function);
# what the first half saw is handed back through CTD_RET
CTD_RET: dict = {}


@inject
@context_teardown
async def a_ctd_A_default(x: Any, *, r: A = resource(), k: Any = None):  # type: ignore[no-untyped-def]
    BODY_RAN.add(CALL.get())
    CTD_RET[CALL.get()] = {"x": x, "k": k, "r": [r]}
    yield


_reg("a_ctd_A_default", a_ctd_A_default, True, [("r", "A", "default", False)], "ctd")


# -- two dependencies resolved in order, one optional
@inject
async def a_two(x: Any, *, r1: A = resource(), r2: Optional[B] = resource("b"), k: Any = None) -> Any:
    BODY_RAN.add(CALL.get())
    return {"x": x, "k": k, "r": [r1, r2]}


_reg("a_two", a_two, True, [("r1", "A", "default", False), ("r2", "B", "b", True)], "two")


@inject
def s_two(x: Any, *, r1: B = resource(), r2: C = resource("a"), k: Any = None) -> Any:
    BODY_RAN.add(CALL.get())
    return {"x": x, "k": k, "r": [r1, r2]}


_reg("s_two", s_two, False, [("r1", "B", "default", False), ("r2", "C", "a", False)], "two")


# -- the same (type, name) asked for twice: optional first, then required (W15_C19_1: the
# two markers differ in nothing but their optional flag)
@inject
async def a_opt_req(x: Any, *, r1: Optional[C] = resource("b"), r2: C = resource("b"), k: Any = None) -> Any:
    BODY_RAN.add(CALL.get())
    return {"x": x, "k": k, "r": [r1, r2]}


_reg("a_opt_req", a_opt_req, True, [("r1", "C", "b", True), ("r2", "C", "b", False)], "two")


@inject
def s_opt_req(x: Any, *, r1: "C | None" = resource("b"), r2: C = resource("b"), k: Any = None) -> Any:
    BODY_RAN.add(CALL.get())
    return {"x": x, "k": k, "r": [r1, r2]}


_reg("s_opt_req", s_opt_req, False, [("r1", "C", "b", True), ("r2", "C", "b", False)], "two")


# -- three differently named resources of one type
@inject
async def a_three_names(*, r1: D = resource(), r2: D = resource("a"), r3: Optional[D] = resource("b")) -> Any:
    BODY_RAN.add(CALL.get())
    return {"x": None, "k": None, "r": [r1, r2, r3]}


_reg(
    "a_three_names",
    a_three_names,
    True,
    [("r1", "D", "default", False), ("r2", "D", "a", False), ("r3", "D", "b", True)],
    "three",
)


# -- generic alias type
@inject
async def a_L_default(x: Any, *, r: list[int] = resource(), k: Any = None) -> Any:
    BODY_RAN.add(CALL.get())
    return {"x": x, "k": k, "r": [r]}


_reg("a_L_default", a_L_default, True, [("r", "L", "default", False)], "alias")


# -- method
class Holder:
    @inject
    async def meth(self, x: Any, *, r: C = resource(), k: Any = None) -> Any:
        BODY_RAN.add(CALL.get())
        return {"x": x, "k": k, "r": [r], "self_ok": isinstance(self, Holder)}

    @inject
    def smeth(self, x: Any, *, r: C = resource("a"), k: Any = None) -> Any:
        BODY_RAN.add(CALL.get())
        return {"x": x, "k": k, "r": [r], "self_ok": isinstance(self, Holder)}


_holder = Holder()
_reg("m_C_default", _holder.meth, True, [("r", "C", "default", False)], "method")
_reg("ms_C_a", _holder.smeth, False, [("r", "C", "a", False)], "method")


def make_local() -> None:
    """Locally defined functions and types: exercises inject()'s local namespace capture."""

    class LocalT:
        pass

    TYPES["LocalT"] = LocalT

    @inject
    async def a_local(x: Any, *, r: LocalT = resource(), k: Any = None) -> Any:
        BODY_RAN.add(CALL.get())
        return {"x": x, "k": k, "r": [r]}

    _reg("a_local", a_local, True, [("r", "LocalT", "default", False)], "local")

    @inject
    def s_local(x: Any, *, r: Optional[LocalT] = resource("a"), k: Any = None) -> Any:
        BODY_RAN.add(CALL.get())
        return {"x": x, "k": k, "r": [r]}

    _reg("s_local", s_local, False, [("r", "LocalT", "a", True)], "local")


make_local()

from . import rtypes_nofuture  # noqa: E402,F401  (registers further catalogue entries)


# ------------------------------------------------------------------ decoration-time table
def decoration_table() -> list[dict]:
    """Schedule-free part of C19: markers that must be rejected when @inject is applied.
    Returns a list of violations (empty = all rejected as required)."""
    out = []

    def expect_typeerror(label: str, make: Any) -> None:
        try:
            make()
        except TypeError:
            return
        except BaseException as e:  # noqa: BLE001
            out.append({"rule": "C19.decoration", "key": label, "msg": f"{label}: raised {type(e).__name__} instead of TypeError"})
            return
        out.append({"rule": "C19.decoration", "key": label, "msg": f"{label}: accepted by @inject"})

    def expect_accepted(label: str, src: str, env: dict) -> None:
        ns: dict = dict(env)
        try:
            exec("from asphalt.core import inject, resource\n@inject\n" + src + "\n", ns)
        except BaseException as e:  # noqa: BLE001
            out.append({"rule": "C19.decoration", "key": label, "msg": f"{label}: a valid signature was rejected by @inject with {type(e).__name__}: {e}"})

    class _AnyEq:
        """An ordinary default value that compares equal to everything (like mock.ANY)."""

        def __eq__(self, other: object) -> bool:
            return True

        __hash__ = object.__hash__

    class _ArrayLike:
        """An ordinary default value whose comparison has no truth value (like an ndarray)."""

        def __eq__(self, other: object) -> Any:
            return self

        def __bool__(self) -> bool:
            raise ValueError("the truth value of an array is ambiguous")

        __hash__ = object.__hash__

    expect_accepted("ordinary_default_eq_anything", "async def f(x, *, r: int = resource(), k=ANY): pass", {"ANY": _AnyEq()})
    expect_accepted("ordinary_default_eq_anything_sync", "def f(x=ANY, *, r: int = resource('a')): pass", {"ANY": _AnyEq()})
    expect_accepted("ordinary_default_arraylike", "async def f(x, *, r: int = resource(), k=ARR): pass", {"ARR": _ArrayLike()})

    def posonly() -> None:
        ns: dict = {}
        exec(
            "from asphalt.core import inject, resource\n"
            "@inject\n"
            "async def f(r: int = resource(), /): pass\n",
            ns,
        )

    def unannotated() -> None:
        ns: dict = {}
        exec(
            "from asphalt.core import inject, resource\n"
            "@inject\n"
            "async def f(r=resource()): pass\n",
            ns,
        )

    def uncalled() -> None:
        ns: dict = {}
        exec(
            "from asphalt.core import inject, resource\n"
            "@inject\n"
            "async def f(r: int = resource): pass\n",
            ns,
        )

    def posonly_sync() -> None:
        ns: dict = {}
        exec(
            "from asphalt.core import inject, resource\n"
            "@inject\n"
            "def f(x, r: int = resource('a'), /, y=1): pass\n",
            ns,
        )

    def unannotated_kwonly() -> None:
        ns: dict = {}
        exec(
            "from asphalt.core import inject, resource\n"
            "@inject\n"
            "def f(x, *, r=resource('a')): pass\n",
            ns,
        )

    def uncalled_kwonly() -> None:
        ns: dict = {}
        exec(
            "from asphalt.core import inject, resource\n"
            "@inject\n"
            "def f(x, *, r: int = resource): pass\n",
            ns,
        )

    def mixed(src: str):
        def make() -> None:
            ns: dict = {}
            exec("from asphalt.core import inject, resource\n@inject\n" + src + "\n", ns)

        return make

    expect_typeerror("uncalled_mixed", mixed("async def f(a: int = resource(), b: int = resource): pass"))
    expect_typeerror("uncalled_mixed_first", mixed("def f(b: int = resource, *, a: int = resource('x')): pass"))
    expect_typeerror("unannotated_mixed", mixed("async def f(a: int = resource(), b=resource('y')): pass"))
    expect_typeerror("posonly_mixed", mixed("def f(p: int = resource(), /, a: int = resource()): pass"))
    expect_typeerror("uncalled_mixed_kwonly", mixed("async def f(x, a: str = resource('n'), *, b: int = resource): pass"))
    expect_typeerror("posonly", posonly)
    expect_typeerror("unannotated", unannotated)
    expect_typeerror("uncalled", uncalled)
    expect_typeerror("posonly_sync", posonly_sync)
    expect_typeerror("unannotated_kwonly", unannotated_kwonly)
    expect_typeerror("uncalled_kwonly", uncalled_kwonly)
    return out
