"""World W4 "tasks": service tasks (C08) and background task factories (C09).

Generated: interleavings of resource registrations (with teardown callbacks), plain
teardown callbacks, start_service_task calls with all three teardown actions and all
task behaviours, task factories with tasks spawned from anywhere, handle operations.
Oracles work on the recorded history: which task logged what, in which order, at which
virtual instant.
"""
from __future__ import annotations

import hashlib
import random
from typing import Any

import anyio
from anyio import CancelScope, create_task_group

from asphalt.core import Context, NoCurrentContext, current_context

from ..core import Sim, run_sim
from .common import DTS, Tagger, contains_cancel, describe, is_cancel, leaves, pick, rpause

NAME = "tasks"
PROPS = ("C08", "C09")


class Marker:
    pass


class FMarker:
    """Products of marker *factories* (the factory table is part of a context's snapshot)."""


class _Ballast:
    """Unrelated resources that merely make a context big."""


class H:
    def __init__(self, sim: Sim, plan: dict) -> None:
        self.sim = sim
        self.plan = plan
        self.tag = Tagger()
        self.pre_ctx: dict[str, Any] = {}
        self.ids: dict[int, str] = {}
        self.ctxs: dict[str, Context] = {}
        self.keep: list[Any] = []
        self.factories: dict[str, Any] = {}
        self.handles: dict[str, Any] = {}
        self.events: dict[str, anyio.Event] = {}
        self.fac_names: list[str] = []
        self.products: dict[int, int] = {}
        self.scope: CancelScope | None = None

    def know(self, ctx: Context, cid: str) -> None:
        self.ids[id(ctx)] = cid
        self.ctxs[cid] = ctx
        self.keep.append(ctx)

    def cid(self, ctx: Any) -> Any:
        return None if ctx is None else self.ids.get(id(ctx), "?")

    def cur(self) -> Any:
        try:
            return self.cid(current_context())
        except NoCurrentContext:
            return None

    def view(self, ctx: Context) -> list:
        return sorted(ctx.get_resources(Marker))

    def fview(self, ctx: Context) -> list:
        """Names of the marker factories visible from ctx (probing generates in ctx only)."""
        out = []
        for n in self.fac_names:
            try:
                obj = ctx.get_resource_nowait(FMarker, n, optional=True)
            except Exception:  # noqa: BLE001
                out.append(n + "!")
                continue
            if obj is not None:
                # what a factory generates for one context is that context's own: the
                # same object turning up in another context is not a visible *factory*
                self.keep.append(obj)
                first = self.products.setdefault(id(obj), id(ctx))
                out.append(n if first == id(ctx) else n + "@product_of_another_context")
        return sorted(out)

    # ---------------------------------------------------------------- blocks
    async def run_block(self, b: dict) -> None:
        sim = self.sim
        cid = b["id"]
        ctx = Context()
        self.know(ctx, cid)
        sim.log("ctx_new", ctx=cid, parent=self.cid(ctx.parent))
        try:
            async with ctx:
                try:
                    for i in range(b.get("ballast", 0)):
                        # scale knob: the context carries dozens of unrelated resources
                        ctx.add_resource(_Ballast(), f"zb{i}")
                    await self.acts(b.get("body", ()), cid)
                    end = b.get("end") or {}
                    if end.get("how") == "raise":
                        e = self.tag.make(end["exc"])
                        sim.log("raise", where="body", ctx=cid, exc=describe(e))
                        raise e
                except BaseException as e:
                    sim.log("body_end", ctx=cid, how="cancel" if is_cancel(e) else "raise", exc=describe(e))
                    raise
                else:
                    sim.log("body_end", ctx=cid, how="return", exc=None)
        except BaseException as e:
            import math

            # a cancellation exception is only a cancellation if a cancel scope around us
            # is really cancelled; otherwise it is a stray one (e.g. a teardown action let
            # the CancelledError of a helper task it had cancelled itself escape)
            real = anyio.current_effective_deadline() == -math.inf
            stray = contains_cancel(e) and not real and not sim.aborting
            sim.log("ctx_exit", ctx=cid, exc=describe(e), stray_cancel=stray)
            if ((contains_cancel(e) and not stray) or sim.aborting or not b.get("catch", True)) and not stray:
                raise
        else:
            sim.log("ctx_exit", ctx=cid, exc=None)

    async def acts(self, acts: Any, cid: str) -> None:
        sim = self.sim
        for a in acts:
            op = a[0]
            if op == "p":
                await sim.pause(a[1], a[2])
            elif op == "res":
                self.res(a[1], cid)
            elif op == "td":
                self.td(a[1], cid)
            elif op == "resfac":
                current_context().add_resource_factory(lambda: FMarker(), a[1]["rid"], types=[FMarker])
                self.fac_names.append(a[1]["rid"])
                sim.log("resfac", rid=a[1]["rid"], ctx=cid)
            elif op == "svc":
                await self.svc(a[1], cid)
            elif op == "child":
                if a[1].get("deadline") is not None:
                    # a timeout narrower than the root around a sub-context
                    with anyio.move_on_after(a[1]["deadline"]) as scope:
                        await self.run_block(a[1])
                    if scope.cancelled_caught:
                        sim.fault("local_deadline")
                        sim.log("local_cancel", ctx=a[1]["id"])
                else:
                    await self.run_block(a[1])
            elif op == "par":
                async with create_task_group() as tg:
                    for br in a[1]:
                        tg.start_soon(self.acts, br["body"], cid, name="w:" + br["name"])
            elif op == "tf":
                await self.tf(a[1], cid)
            elif op == "spawn":
                await self.spawn(a[1])
            elif op == "hcancel":
                self.hcancel(a[1])
            elif op == "hwait":
                await self.hwait(a[1])
            elif op == "handles":
                self.obs_handles(a[1]["tf"], "act")

    # ---------------------------------------------------------------- plain registrations
    def res(self, spec: dict, cid: str) -> None:
        sim = self.sim
        ctx = current_context()
        rid = spec["rid"]
        dur = spec.get("dur", 0.0)
        if spec.get("async"):

            async def cb() -> None:
                sim.log("cb_start", cb=rid, ctx=cid)
                await sim.pause(0, dur)
                sim.log("cb_end", cb=rid, ctx=cid)

        else:

            def cb() -> None:  # type: ignore[misc]
                sim.log("cb_start", cb=rid, ctx=cid)
                sim.log("cb_end", cb=rid, ctx=cid)

        sim.log("reg_begin", cb=rid, ctx=cid, kind="res")
        ctx.add_resource(Marker(), rid, teardown_callback=cb)
        sim.log("reg", cb=rid, ctx=cid, kind="res")

    def td(self, spec: dict, cid: str) -> None:
        sim = self.sim
        ctx = current_context()
        tid = spec["id"]
        dur = spec.get("dur", 0.0)

        def boom() -> None:
            # an ordinary teardown callback that fails - with an Exception or with something
            # that is not one: everything registered before it still has to be torn down
            if spec.get("raises"):
                e = self.tag.make(spec["raises"])
                sim.fault("raise_in_callback")
                sim.log("cb_raise", cb=tid, ctx=cid, exc=describe(e))
                raise e
        if spec.get("async"):

            async def cb() -> None:
                sim.log("cb_start", cb=tid, ctx=cid)
                await sim.pause(0, dur)
                if spec.get("svc"):
                    # a service task started while its owning context is already closing:
                    # its finalizer goes on top of the stack and runs next
                    await self.svc(spec["svc"], cid)
                sim.log("cb_end", cb=tid, ctx=cid)
                boom()

        else:

            def cb() -> None:  # type: ignore[misc]
                sim.log("cb_start", cb=tid, ctx=cid)
                sim.log("cb_end", cb=tid, ctx=cid)
                boom()

        sim.log("reg_begin", cb=tid, ctx=cid, kind="td")
        ctx.add_teardown_callback(cb)
        sim.log("reg", cb=tid, ctx=cid, kind="td")

    # ---------------------------------------------------------------- service tasks
    async def svc(self, spec: dict, cid: str) -> None:
        sim = self.sim
        owner = current_context()
        if spec.get("on") in self.ctxs and not self.ctxs[spec["on"]].closed:
            # the *method* of another (enclosing, still open) context, called while a
            # nested context is current: that context is the owner
            owner = self.ctxs[spec["on"]]
            cid = spec["on"]
        name = spec["name"]
        body_spec = spec.get("body", {})
        mode = body_spec.get("mode", "until_cancel")
        ev = anyio.Event()
        self.events[name] = ev
        h = self
        action = spec.get("action", "cancel")

        async def run_body(task_status: Any) -> None:
            c = current_context()
            sim.log(
                "svc_start",
                svc=name,
                fresh=id(c) not in h.ids,
                parent=h.cid(c.parent),
                owner=cid,
                view=h.view(c),
                owner_now=h.view(owner),
                fview=h.fview(c),
            )
            for otd in body_spec.get("own_td", ()):
                h.own_td(c, name, otd)
            try:
                await sim.pause(0, body_spec.get("start_delay", 0.0))
                if task_status is not None:
                    task_status.started(f"sv:{name}")
                if mode == "ends_at":
                    await anyio.sleep(body_spec.get("life", 1.0))
                elif mode == "until_signal":
                    await ev.wait()
                    await sim.pause(0, body_spec.get("wind_down", 0.0))
                elif mode == "crash":
                    await anyio.sleep(body_spec.get("life", 1.0))
                    e = h.tag.make(body_spec.get("cls", "SimError"))
                    sim.fault("task_crash")
                    sim.log("svc_raise", svc=name, exc=describe(e), phase="running")
                    sim.log("svc_body_end", svc=name, how="crash", view=h.view(c), fview=h.fview(c))
                    raise e
                else:
                    await anyio.sleep(1e6)
                sim.log("svc_body_end", svc=name, how="return", view=h.view(c), fview=h.fview(c))
            except BaseException as e:
                if is_cancel(e):
                    sim.log("svc_cancelled", svc=name)
                    if body_spec.get("cleanup"):
                        with CancelScope(shield=True):
                            await anyio.sleep(body_spec["cleanup"])
                    sim.log("svc_body_end", svc=name, how="cancelled", view=h.view(c), fview=h.fview(c))
                    if body_spec.get("raise_in_cleanup"):
                        e2 = h.tag.make(body_spec["raise_in_cleanup"])
                        sim.fault("task_crash")
                        sim.log("svc_raise", svc=name, exc=describe(e2), phase="cleanup")
                        raise e2
                raise

        if body_spec.get("task_status", True):

            async def body(*, task_status: Any) -> None:
                await run_body(task_status)

        else:

            async def body() -> None:  # type: ignore[misc]
                await run_body(None)

        kw: dict[str, Any] = {}
        if action == "none":
            kw["teardown_action"] = None
        elif action == "call":
            a = spec.get("act", {})

            def fire() -> None:
                sim.log("act_call", svc=name)
                if a.get("signal", True):
                    ev.set()
                if a.get("raises") == "CE" and sim.backend == "asyncio":
                    # the action cancelled a helper task of its own and let that task's
                    # CancelledError escape: an exception of the action like any other
                    import asyncio as _asyncio

                    sim.fault("raise_in_teardown_action")
                    sim.log("act_raise", svc=name, exc="stray_cancel")
                    raise _asyncio.CancelledError("helper task of the teardown action")
                if a.get("raises"):
                    e = h.tag.make(a["raises"] if a["raises"] != "CE" else "SimFatal")
                    sim.fault("raise_in_teardown_action")
                    sim.log("act_raise", svc=name, exc=describe(e))
                    raise e

            if a.get("kind") == "async":

                async def act() -> None:
                    sim.log("act_begin", svc=name)
                    await sim.pause(0, a.get("dur", 0.0))
                    fire()

            elif a.get("kind") in ("sync_aw", "aw_obj"):

                async def _inner() -> None:
                    await sim.pause(0, a.get("dur", 0.0))
                    fire()

                class _AwAct:
                    """An awaitable that is not a coroutine object."""

                    def __await__(self_) -> Any:
                        return _inner().__await__()

                def act() -> Any:  # type: ignore[misc]
                    sim.log("act_begin", svc=name)
                    return _inner() if a.get("kind") == "sync_aw" else _AwAct()

            else:

                def act() -> None:  # type: ignore[misc]
                    sim.log("act_begin", svc=name)
                    fire()

            if a.get("wrap"):
                # "(function, or any callable ...)": the action is a callable *object*,
                # possibly one that is falsy (a callable collection that is still empty)
                inner_act = act
                if a.get("kind") == "async":

                    class _Act:
                        async def __call__(self_) -> Any:
                            return await inner_act()

                else:

                    class _Act:  # type: ignore[no-redef]
                        def __call__(self_) -> Any:
                            return inner_act()

                if a["wrap"] == "falsy":
                    _Act.__len__ = lambda self_: 0  # type: ignore[attr-defined]
                elif a["wrap"] == "unhashable":
                    # value semantics (an ordinary @dataclass with __call__): not hashable
                    _Act.__eq__ = lambda self_, other: type(other) is type(self_)  # type: ignore[method-assign,assignment]
                    _Act.__hash__ = None  # type: ignore[assignment]
                act = _Act()  # type: ignore[assignment]
            kw["teardown_action"] = act
        elif action == "cancel" and spec.get("explicit"):
            kw["teardown_action"] = "cancel"
        sim.log("svc_call", svc=name, ctx=cid, action=action, owner_view=self.view(owner))
        try:
            ret = await owner.start_service_task(body, name, **kw)
        except BaseException as e:
            sim.log("svc_call_failed", svc=name, exc=describe(e))
            raise
        sim.log("svc_reg", svc=name, ctx=cid, ret=ret, owner_view=self.view(owner))

    def own_td(self, c: Context, name: str, otd: dict) -> None:
        sim = self.sim
        oid = otd["id"]

        async def cb() -> None:
            sim.log("own_td_start", svc=name, cb=oid)
            if otd.get("shield"):
                with CancelScope(shield=True):
                    await sim.pause(0, otd.get("dur", 0.0))
            else:
                await sim.pause(0, otd.get("dur", 0.0))
            sim.log("own_td_end", svc=name, cb=oid)

        c.add_teardown_callback(cb)

    # ---------------------------------------------------------------- task factories
    async def tf(self, spec: dict, cid: str) -> None:
        sim = self.sim
        owner = current_context()
        if spec.get("on") in self.ctxs and not self.ctxs[spec["on"]].closed:
            owner = self.ctxs[spec["on"]]
            cid = spec["on"]
        fid = spec["id"]
        handler = spec.get("handler")
        h = self
        kw: dict[str, Any] = {}
        if handler:

            def eh(exc: Exception) -> Any:
                sim.log("handler", tf=fid, exc=describe(exc), is_exception=isinstance(exc, Exception))
                return {"true": True, "false": False, "none": None, "one": 1, "zero": 0}[handler]

            if spec.get("handler_obj"):
                # a callable *object* whose truth value is False (it has a length of 0):
                # "is a handler installed" must not be decided by truthiness
                class _FalsyHandler:
                    def __len__(self) -> int:
                        return 0

                    def __call__(self, exc: Exception) -> Any:
                        return eh(exc)

                kw["exception_handler"] = _FalsyHandler()
            else:
                kw["exception_handler"] = eh
        sim.log("tf_call", tf=fid, ctx=cid, owner_view=self.view(owner))
        sim.log("reg_begin", cb="tf:" + fid, ctx=cid, kind="tf")
        factory = await owner.start_background_task_factory(**kw)
        self.factories[fid] = factory
        sim.log("reg", cb="tf:" + fid, ctx=cid, kind="tf")
        sim.log("tf_started", tf=fid, ctx=cid, owner_view=self.view(owner))

    def make_task(self, fid: str, t: dict) -> Any:
        sim = self.sim
        tid = t["tid"]
        h = self

        async def run(task_status: Any) -> Any:
            c = current_context()
            par = c.parent
            fkey = f"{fid}.ctx"
            if par is not None and id(par) not in h.ids:
                # first sighting of the factory's own context
                if fkey not in h.ctxs:
                    h.know(par, fkey)
            sim.log(
                "task_start",
                tf=fid,
                task=tid,
                fresh=id(c) not in h.ids,
                parent=h.cid(par),
                grandparent=h.cid(par.parent) if par is not None else None,
                view=h.view(c),
                fview=h.fview(c),
                same_as_pre=(h.pre_ctx[tid] is c) if tid in h.pre_ctx else None,
            )
            h.obs_handles(fid, f"in:{tid}")
            if t.get("own_td_raise"):
                def own_cb() -> None:
                    e = h.tag.make(t["own_td_raise"])
                    sim.fault("raise_in_task_context_teardown")
                    sim.log("task_td_raise", tf=fid, task=tid, exc=describe(e))
                    raise e

                c.add_teardown_callback(own_cb)
            if t.get("own_td") is not None:
                # a teardown callback of the task's own context that takes a while: the
                # task has not ended before its context has been torn down

                async def own_slow() -> None:
                    sim.log("task_td_start", tf=fid, task=tid)
                    try:
                        with CancelScope(shield=True):
                            await sim.pause(0, t["own_td"])
                    finally:
                        sim.log("task_td_end", tf=fid, task=tid)

                c.add_teardown_callback(own_slow)
            try:
                if t.get("started_delay") is not None and task_status is not None:
                    await sim.pause(0, t["started_delay"])
                    task_status.started(f"tv:{tid}")
                    sim.log("task_started", tf=fid, task=tid)
                for a in t.get("acts", ()):
                    if a[0] == "p":
                        if a[1] > 0 or a[2] > 0:
                            sim.log("task_p", tf=fid, task=tid)
                        await sim.pause(a[1], a[2])
                    elif a[0] == "spawn":
                        await h.spawn(a[1])
                    elif a[0] == "handles":
                        h.obs_handles(fid, f"in:{tid}")
                end = t.get("end", "return")
                if end == "raise":
                    e = h.tag.make(t.get("cls", "SimError"))
                    sim.fault("raise_in_task")
                    sim.log("task_end", tf=fid, task=tid, how="raise", exc=describe(e))
                    raise e
                sim.log("task_end", tf=fid, task=tid, how="return", exc=None)
                return None
            except BaseException as e:
                if is_cancel(e):
                    sim.log("task_cancelled", tf=fid, task=tid)
                    if t.get("cleanup"):
                        with CancelScope(shield=True):
                            await anyio.sleep(t["cleanup"])
                    sim.log("task_end", tf=fid, task=tid, how="cancelled", exc=None)
                raise

        def pre() -> None:
            # the synchronous part of a target that is a plain callable returning a
            # coroutine (a lambda, a callable object): it already runs in the task's own
            # fresh context, like the rest of the task
            c = current_context()
            h.pre_ctx[tid] = c
            sim.log("task_pre", tf=fid, task=tid, fresh=id(c) not in h.ids, view=h.view(c))

        if t.get("uh_obj"):
            # the target is a callable *object* with value semantics (an ordinary @dataclass
            # with an async __call__): equality defined, hence not hashable
            if t.get("started_delay") is not None:

                class _UhTarget:
                    __hash__ = None  # type: ignore[assignment]

                    def __eq__(self_, other: Any) -> bool:
                        return type(other) is type(self_)

                    async def __call__(self_, *, task_status: Any) -> Any:
                        return await run(task_status)

            else:

                class _UhTarget:  # type: ignore[no-redef]
                    __hash__ = None  # type: ignore[assignment]

                    def __eq__(self_, other: Any) -> bool:
                        return type(other) is type(self_)

                    async def __call__(self_) -> Any:
                        return await run(None)

            return _UhTarget()
        if t.get("started_delay") is not None:
            if t.get("sync_part"):

                def fn(*, task_status: Any) -> Any:
                    pre()
                    return run(task_status)

            else:

                async def fn(*, task_status: Any) -> Any:  # type: ignore[misc]
                    return await run(task_status)

        else:
            if t.get("sync_part"):

                def fn() -> Any:  # type: ignore[misc]
                    pre()
                    return run(None)

            else:

                async def fn() -> Any:  # type: ignore[misc]
                    return await run(None)

        return fn

    async def spawn(self, spec: dict) -> None:
        sim = self.sim
        fid = spec["tf"]
        factory = self.factories.get(fid)
        if factory is None:
            return
        t = spec["task"]
        tid = t["tid"]
        fn = self.make_task(fid, t)
        how = spec.get("how", "soon")
        sim.log("spawn_begin", tf=fid, task=tid, how=how, cur=self.cur())
        extra = spec.get("extra_ctx")
        try:
            if extra:
                # spawn from a nested context that holds resources the factory's context lacks
                async with Context() as ex:
                    self.know(ex, f"sp_{tid}")
                    ex.add_resource(Marker(), f"extra_{tid}")
                    handle = await self._do_spawn(factory, fn, tid, how)
            else:
                handle = await self._do_spawn(factory, fn, tid, how)
        except BaseException as e:
            if contains_cancel(e):
                sim.log("spawn_end", tf=fid, task=tid, out="cancelled")
                raise
            sim.log("spawn_end", tf=fid, task=tid, out="error", exc=f"{type(e).__name__}")
            sim.fault("spawn_failed")
            self.obs_handles(fid, "after_failed_spawn")
            return
        self.handles[tid] = handle
        sim.log(
            "spawn_end",
            tf=fid,
            task=tid,
            out="ok",
            name=handle.name,
            start_value=getattr(handle, "start_value", "<unset>") if how == "start" else None,
        )
        self.obs_handles(fid, "after_spawn")

    async def _do_spawn(self, factory: Any, fn: Any, tid: str, how: str) -> Any:
        if how == "start":
            return await factory.start_task(fn, tid)
        return factory.start_task_soon(fn, tid)

    def obs_handles(self, fid: str, where: str) -> None:
        factory = self.factories.get(fid)
        if factory is None:
            return
        hs = factory.all_task_handles()
        self.sim.log("handles", tf=fid, names=sorted(x.name for x in hs), where=where, is_copy=hs is not factory.all_task_handles())

    def hcancel(self, spec: dict) -> None:
        handle = self.handles.get(spec["task"])
        if handle is None:
            return
        self.sim.log("hcancel", task=spec["task"])
        self.sim.fault("handle_cancel")
        handle.cancel()

    async def hwait(self, spec: dict) -> None:
        handle = self.handles.get(spec["task"])
        if handle is None:
            return
        self.sim.log("hwait_begin", task=spec["task"])
        await handle.wait_finished()
        self.sim.log("hwait_end", task=spec["task"])
        for fid, f in self.factories.items():
            self.obs_handles(fid, "after_wait")


def make_main(plan: dict):
    async def main(sim: Sim) -> None:
        h = H(sim, plan)
        sim.user["h"] = h
        try:
            with CancelScope() as scope:
                sim.user["scope"] = scope
                try:
                    await h.run_block(plan["root"])
                    # spawning on a factory whose context has been closed must fail cleanly
                    for a in plan.get("after", ()):
                        if a[0] == "spawn":
                            await h.spawn(a[1])
                        elif a[0] == "p":
                            await sim.pause(a[1], a[2])
                    await anyio.sleep(plan.get("linger", 5.0))
                    sim.log("linger_end")
                    for fid in h.factories:
                        h.obs_handles(fid, "final")
                except BaseException as e:
                    sim.log("top_exc", exc=describe(e))
                    if contains_cancel(e) or sim.aborting:
                        raise
            sim.log("top_done", cancelled_caught=scope.cancelled_caught)
        except BaseException as e:
            sim.log("escaped", exc=describe(e))
            if sim.aborting and is_cancel(e):
                raise

    return main


def execute(plan: dict, *, want_digest: bool = False, want_trace: bool = False) -> dict:
    cancel = plan.get("cancel")
    fire_step = None
    if cancel:
        pilot = Sim(plan, trace_steps=False)
        run_sim(pilot, make_main(plan))
        fire_step = 1 + min(int(cancel["frac"] * pilot.step), max(pilot.step - 1, 0))
    sim = Sim(plan)
    if fire_step is not None:

        def fire() -> None:
            scope = sim.user.get("scope")
            if scope is not None and not scope.cancel_called:
                sim.log("cancel_fire")
                sim.fault("cancel_at_step")
                scope.cancel()

        sim.inject_at_step(fire_step, fire)
    run_sim(sim, make_main(plan))
    viol = oracle(sim, plan)
    res = {
        "violations": viol,
        "faults": dict(sim.faults),
        "probes": dict(sim.probes),
        "steps": sim.step,
        "vtime": sim.end_time,
        "sig": sim.signature(),
        "deadlock": sim.deadlock,
        "crashed": sim.crashed,
        "step_limit": sim.step_limit,
        "nontrivial": len({r[3] for r in sim.trace}) >= 2 or sum(sim.faults.values()) > 0,
        "final": _final(sim),
        "fire_step": fire_step,
    }
    if want_digest:
        res["digest"] = sim.digest()
    if want_trace:
        res["trace"] = sim.dump_trace()
    return res


def _final(sim: Sim) -> str:
    h = hashlib.blake2b(digest_size=8)
    for r in sim.trace:
        if r[4] in ("ctx_exit", "svc_body_end", "task_end", "handler", "top_exc"):
            h.update(repr((r[4], sorted((k, str(v)) for k, v in r[5].items()))).encode())
    return h.hexdigest()


# =============================================================================== oracle
def oracle(sim: Sim, plan: dict) -> list[dict]:
    V: list[dict] = []
    seen: set = set()

    def v(rule: str, key: str, msg: str) -> None:
        if (rule, key, msg) in seen:
            return
        seen.add((rule, key, msg))
        V.append({"rule": rule, "key": key, "msg": msg})

    if sim.step_limit:
        return V
    if sim.deadlock:
        for p in PROPS:
            v(f"{p}.deadlock", "deadlock", "run deadlocked: teardown waited forever")
        return V
    tr = sim.trace
    cancel_seq = next((r[0] for r in tr if r[4] == "cancel_fire"), None)
    crashed = [r for r in tr if r[4] == "svc_raise"]
    escaped_task_exc = [r for r in tr if (r[4] == "task_end" and r[5]["how"] == "raise") or r[4] == "task_td_raise"]

    exits = {r[5]["ctx"]: r for r in tr if r[4] == "ctx_exit"}
    for r in tr:
        if r[4] == "ctx_exit" and r[5].get("stray_cancel"):
            v("C08.action", "cancellation_leaked", f"leaving context {r[5]['ctx']} raised {r[5]['exc']} although nothing around it was cancelled: a cancellation exception raised by a teardown action must be handled like any other failure of the action (fall back to cancelling the task, wait for it)")
    body_ends = {r[5]["ctx"]: r for r in tr if r[4] == "body_end"}
    ctx_parent = {r[5]["ctx"]: r[5]["parent"] for r in tr if r[4] == "ctx_new"}

    local_cancelled = {r[5]["ctx"] for r in tr if r[4] == "local_cancel"}
    # contexts nested inside a locally cancelled one are cancelled with it
    changed_lc = True
    while changed_lc:
        changed_lc = False
        for c_, p_ in ctx_parent.items():
            if p_ in local_cancelled and c_ not in local_cancelled:
                local_cancelled.add(c_)
                changed_lc = True

    def root_of(c: str) -> str:
        while ctx_parent.get(c) not in (None, "?"):
            c = ctx_parent[c]
        return c

    def teardown_cancelled(c: str) -> bool:
        """The property exempts teardowns that are themselves cancelled: an injected cancel
        before the context was left, or a crash that cancels the root's task group."""
        x = exits.get(c)
        if x is None:
            return True
        if cancel_seq is not None and cancel_seq < x[0]:
            return True
        be = body_ends.get(c)
        if be is not None and be[5]["how"] == "cancel":
            return True
        for cr in crashed + escaped_task_exc:
            if cr[0] < x[0]:
                return True
        if "cancel" in leaves(x[5]["exc"]):
            return True
        return False

    # ------------------------------------------------------------------ C08
    svc: dict[str, dict] = {}
    for r in tr:
        k, d = r[4], r[5]
        if k == "svc_call":
            svc[d["svc"]] = {"call": r, "ctx": d["ctx"], "action": d["action"], "events": []}
        elif "svc" in d and d["svc"] in svc:
            svc[d["svc"]]["events"].append(r)
            svc[d["svc"]][k] = svc[d["svc"]].get(k, []) + [r]
    spec_of = {s["name"]: s for s in _all_svcs(plan)}
    regs = [r for r in tr if r[4] == "reg"]
    reg_begin = {r[5]["cb"]: r for r in tr if r[4] == "reg_begin"}
    cb_start = {r[5]["cb"]: r for r in tr if r[4] == "cb_start"}

    last_of_task: dict[str, int] = {}
    for r in tr:
        last_of_task[r[3]] = r[0]
    for name, s in svc.items():
        c = s["ctx"]
        spec = spec_of.get(name, {})
        body = spec.get("body", {})
        st = s.get("svc_start")
        if st:
            d = st[0][5]
            if not d["fresh"] or d["parent"] != c:
                v("C08.context", "parent", f"service task {name} runs in context fresh={d['fresh']} parent={d['parent']}, expected a fresh child of {c}")
            want_f = sorted(r[5]["rid"] for r in tr if r[4] == "resfac" and r[0] < s["call"][0])
            if d.get("fview") is not None and d["fview"] != want_f:
                v("C08.context", "factory_snapshot", f"service task {name} sees resource factories {d['fview']}; those registered when it was started: {want_f}")
            if d["view"] != d["owner_now"] or not set(s["call"][5]["owner_view"]) <= set(d["view"]):
                v("C08.context", "snapshot", f"service task {name} sees {d['view']}; the owner held {d['owner_now']} when its context was created (and {s['call'][5]['owner_view']} at the call)")
            ret = s.get("svc_reg")
            if ret and not set(d["view"]) <= set(ret[0][5]["owner_view"]):
                v(
                    "C08.context",
                    "snapshot_after_start",
                    f"service task {name} sees {d['view']}, but when start_service_task() returned the owner held only "
                    f"{ret[0][5]['owner_view']}: the snapshot was taken after the task had been started",
                )
            for e in s.get("svc_body_end", []):
                if e[5]["view"] != d["view"]:
                    v("C08.context", "snapshot_changed", f"service task {name}: visible resources changed from {d['view']} to {e[5]['view']}")
                if e[5].get("fview") is not None and d.get("fview") is not None and e[5]["fview"] != d["fview"]:
                    v("C08.context", "factory_snapshot_changed", f"service task {name}: visible resource factories changed from {d['fview']} to {e[5]['fview']} (factories registered elsewhere after the task was started)")
        if "svc_reg" not in s:
            continue
        reg_seq = s["svc_reg"][0][0]
        task_label = f"Service task: {name}"
        task_events = [r for r in tr if r[3] == task_label]
        last_task_seq = max((r[0] for r in task_events), default=None)
        x = exits.get(c)
        if x is None:
            continue
        # nothing of the task may happen after its owner's block has been left
        late = [r for r in task_events if r[0] > x[0]]
        if late and not teardown_cancelled(c):
            v("C08.running_after_exit", "late", f"service task {name} still active after its owning context {c} was left: {late[0][4]}")
        if not s.get("svc_body_end") and st and not teardown_cancelled(c):
            v("C08.running_after_exit", "never_ended", f"service task {name} never ended although its owning context {c} was left")
        if body.get("cleanup") and s.get("svc_cancelled"):
            sim.probe("svc_cancelled_with_cleanup")
        if s.get("own_td_start"):
            sim.probe("svc_own_context_teardown")
        if teardown_cancelled(c):
            sim.probe("teardown_itself_cancelled")
            if len(s.get("act_begin", [])) > 1:
                v("C08.action", "twice", f"teardown action of {name} invoked {len(s['act_begin'])} times")
            continue
        be = body_ends.get(c)
        action = s["action"]
        cancelled = s.get("svc_cancelled", [])
        acts_ = s.get("act_begin", [])
        crashed_before = [r for r in s.get("svc_raise", []) if be is not None and r[0] < be[0]]
        ended_before = [r for r in s.get("svc_body_end", []) if r[5]["how"] in ("return", "crash")]
        if action == "cancel":
            if not cancelled and not ended_before and not crashed_before:
                v("C08.action", "not_cancelled", f"service task {name} (teardown_action='cancel') never observed cancellation")
        elif action == "none":
            if cancelled:
                v("C08.action", "cancelled_none", f"service task {name} (teardown_action=None) was cancelled at teardown")
        else:
            a = spec.get("act", {})
            if len(acts_) != 1:
                v("C08.action", "call_count", f"teardown action of {name} invoked {len(acts_)} times, expected exactly once")
            if a.get("raises"):
                if not cancelled and not ended_before:
                    v("C08.action", "no_fallback_cancel", f"teardown action of {name} raised but the task was not cancelled")
            elif cancelled:
                v("C08.action", "cancelled_after_ok", f"teardown action of {name} succeeded but the task was cancelled")
        # ordering against other callbacks of the same context
        first_touch = min(
            [r[0] for r in acts_] + [r[0] for r in cancelled if be is not None and r[0] > be[0]], default=None
        )
        for rr in regs:
            d = rr[5]
            if d["ctx"] != c or d["cb"].startswith("tf:"):
                continue
            cs = cb_start.get(d["cb"])
            if cs is None:
                continue
            rb = reg_begin.get(d["cb"])
            if rr[0] < reg_seq:
                # registered before the task was up (start_service_task had not returned yet):
                # must wait for task + its context - unless it had already begun to run when
                # the task was started (the task was started from inside the teardown)
                if cs[0] < s["call"][0]:
                    continue
                if last_task_seq is not None and cs[0] < last_task_seq:
                    v(
                        "C08.order",
                        "earlier_callback_before_task_end",
                        f"callback {d['cb']} (registered before service task {name} was started) ran before the task "
                        f"and its context had finished",
                    )
            elif rb is not None and rb[0] > reg_seq:
                if first_touch is not None and cs[0] > first_touch:
                    v(
                        "C08.order",
                        "later_callback_after_task_touched",
                        f"callback {d['cb']} (registered after service task {name} was started) ran only after the task was stopped",
                    )
        # ... and against service tasks of the same context started later (in the body):
        # each of those is stopped, and has finished, before this one is touched
        if first_touch is not None and be is not None:
            for other, so in svc.items():
                if other == name or so["ctx"] != c or "svc_reg" not in so:
                    continue
                if not (reg_seq < so["call"][0] < be[0]):
                    continue
                o_last = last_of_task.get(f"Service task: {other}")
                if o_last is not None and first_touch < o_last:
                    v(
                        "C08.order",
                        "earlier_task_stopped_before_later_task_end",
                        f"service task {name} was stopped while service task {other} (started after it in {c}) "
                        f"and its context had not finished yet",
                    )
    # crashes must surface (only the first failure of a run is judged: once a root is being
    # brought down, what the backend does with further exceptions raised during that
    # cancellation is not asphalt's doing)
    failures = sorted([r[0] for r in crashed] + [r[0] for r in escaped_task_exc])
    first_failure = failures[0] if failures else None
    for cr in crashed:
        if cr[0] != first_failure:
            continue
        name = cr[5]["svc"]
        unfinished_own_td = {r[5]["cb"] for r in svc.get(name, {}).get("own_td_start", [])} - {
            r[5]["cb"] for r in svc.get(name, {}).get("own_td_end", [])
        }
        own_td_cancelled = bool(unfinished_own_td)
        c = svc.get(name, {}).get("ctx")
        if c is None:
            continue
        root = root_of(c)
        x = exits.get(root)
        if x is None:
            continue
        if cr[5]["exc"] not in leaves(x[5]["exc"]) and not _sub(cr[5]["exc"], x[5]["exc"]):
            if cancel_seq is not None and cancel_seq < x[0]:
                continue
            if own_td_cancelled:
                # the task was cancelled while its own context was being torn down: the
                # teardown group (holding only the cancellation) replaces the crash (C01
                # semantics) and the task's cancel scope then swallows it
                v("C08.crash", "own_teardown_cancelled", f"exception {cr[5]['exc']} escaping service task {name} vanished: the task was cancelled while a teardown callback of its own context ({sorted(unfinished_own_td)}) was suspended")
            else:
                v("C08.crash", f"vanished_{cr[5]['phase']}", f"exception {cr[5]['exc']} escaping service task {name} did not come out of the root context {root} (got {x[5]['exc']})")

    # ------------------------------------------------------------------ C09
    tfs: dict[str, dict] = {}
    tasks: dict[str, dict] = {}
    for r in tr:
        k, d = r[4], r[5]
        if k == "tf_call":
            tfs[d["tf"]] = {"call": r, "ctx": d["ctx"]}
        elif k == "tf_started" and d["tf"] in tfs:
            tfs[d["tf"]]["started_view"] = d["owner_view"]
        elif k == "spawn_begin":
            tasks[d["task"]] = {"tf": d["tf"], "begin": r, "how": d["how"]}
        elif k in ("spawn_end", "task_start", "task_end", "task_cancelled", "task_started", "task_p", "task_td_raise", "task_td_start", "task_td_end") and d.get("task") in tasks:
            tasks[d["task"]].setdefault(k, []).append(r)
        elif k in ("hcancel", "hwait_begin", "hwait_end") and d.get("task") in tasks:
            tasks[d["task"]].setdefault(k, []).append(r)
    tspec = {t["tid"]: t for t in _all_tasks(plan)}

    def late_sfx(tid: str) -> str:
        """Tasks spawned once the teardown of their factory's owner has begun race with the
        factory's shutdown; on asyncio they can slip into an already exiting task group
        (known finding, keyed so that exactly this cause is recognised)."""
        t = tasks.get(tid)
        if t is None or plan.get("backend") != "asyncio" or t["tf"] not in tfs:
            return ""
        be = body_ends.get(tfs[t["tf"]]["ctx"])
        return "@teardown_spawn" if be is not None and t["begin"][0] > be[0] else ""

    for tid, t in tasks.items():
        fid = t["tf"]
        f = tfs.get(fid)
        if f is None:
            continue
        se = t.get("spawn_end", [None])[0]
        ts = t.get("task_start", [None])[0]
        if ts is not None:
            d = ts[5]
            if not d["fresh"]:
                v("C09.context", "not_fresh", f"task {tid} runs in an existing context")
            pre_ = next((r for r in tr if r[4] == "task_pre" and r[5]["task"] == tid), None)
            if pre_ is not None and (d.get("same_as_pre") is not True or not pre_[5]["fresh"] or pre_[5]["view"] != d["view"]):
                v("C09.context", "sync_part_elsewhere", f"task {tid}: the synchronous part of its target ran in another context (fresh={pre_[5]['fresh']}, view {pre_[5]['view']}) than the task itself (view {d['view']})")
            if d["parent"] != f"{fid}.ctx":
                v("C09.context", "parent", f"task {tid}: context parent is {d['parent']}, expected the factory's own context {fid}.ctx")
            if d["grandparent"] != f["ctx"]:
                v("C09.context", "grandparent", f"task {tid}: the factory context's parent is {d['grandparent']}, expected the owner {f['ctx']}")
            want_f = sorted(r[5]["rid"] for r in tr if r[4] == "resfac" and r[0] < f["call"][0])
            if d.get("fview") is not None and d["fview"] != want_f:
                v("C09.context", "factory_snapshot", f"task {tid} sees resource factories {d['fview']}; those registered when its task factory was started: {want_f}")
            lo = set(f["call"][5]["owner_view"])
            hi = set(f.get("started_view", d["view"]))
            if not (lo <= set(d["view"]) <= hi) or any(n.startswith("extra_") for n in d["view"]):
                v("C09.context", "snapshot", f"task {tid} sees {d['view']}; the factory's owner held {sorted(lo)} when the factory was started (and {sorted(hi)} when it was up)")
            if f.setdefault("task_view", d["view"]) != d["view"]:
                v("C09.context", "snapshot_differs", f"task {tid} sees {d['view']}, an earlier task of the same factory saw {f['task_view']}")
        if se is not None and se[5]["out"] == "ok":
            if se[5]["name"] != tid:
                v("C09.handles", "name", f"handle of {tid} is named {se[5]['name']}")
            if t["how"] == "start" and tspec.get(tid, {}).get("started_delay") is not None:
                if se[5]["start_value"] != f"tv:{tid}":
                    v("C09.handles", "start_value", f"handle.start_value of {tid} is {se[5]['start_value']!r}")
                st = t.get("task_started", [None])[0]
                if st is not None and se[0] < st[0]:
                    v("C09.handles", "start_early", f"start_task({tid}) returned before task_status.started()")
        # wait_finished returns exactly when the task has ended
        pairs = []
        for we_ in t.get("hwait_end", []):
            # an interrupted wait logs no end: pair each end with the latest begin before it
            # issued by the same task
            cands = [b for b in t.get("hwait_begin", []) if b[0] < we_[0] and b[3] == we_[3]]
            if cands:
                pairs.append((cands[-1], we_))
        for wb, we in pairs:
            te = t.get("task_end", [None])[0]
            if te is None:
                if ts is None and se is not None and se[5]["out"] == "ok":
                    continue  # cancelled before it ever ran: nothing to compare
                v("C09.wait", "returned_without_end", f"wait_finished() of {tid} returned but the task never ended")
            else:
                tde = (t.get("task_td_end") or [None])[0]
                if tde is not None:
                    # (the task's own context is part of the task: it ends when that is torn down)
                    if we[0] < tde[0]:
                        v("C09.wait", "early_context_teardown", f"wait_finished() of {tid} returned while the task's own context was still being torn down")
                    te = tde
                if we[0] < te[0]:
                    v("C09.wait", "early", f"wait_finished() of {tid} returned before the task ended")
                elif abs(we[2] - max(te[2], wb[2])) > 1e-9 and not (cancel_seq is not None):
                    v("C09.wait", "late", f"task {tid} ended at t={te[2]}, wait_finished() returned at t={we[2]}")
        # cancel() ends only that task
        start_interrupted = se is not None and se[5]["out"] == "cancelled"  # start_task() itself was cancelled
        if t.get("task_cancelled") and not t.get("hcancel") and not start_interrupted:
            f_ctx = f["ctx"]
            root_be = body_ends.get(root_of(f_ctx))
            tc_seq = t["task_cancelled"][0][0]
            during_root_body = root_be is None or tc_seq < root_be[0]
            locally = f_ctx in local_cancelled and not teardown_cancelled(root_of(f_ctx))
            if f_ctx in local_cancelled and not during_root_body:
                pass  # cancelled later, by the root going down: nobody owes this task a wait any more
            elif locally:
                # the owner's teardown was interrupted by a timeout narrower than the root:
                # its wait may be cut short, but the tasks live on in the root's task group
                v("C09.cancel", "foreign_cancel_local" + late_sfx(tid), f"task {tid} observed cancellation because the teardown of its factory's owner {f_ctx} was interrupted by a local timeout (teardown may stop waiting, it must never cancel)")
            elif not teardown_cancelled(f_ctx) and not teardown_cancelled(root_of(f_ctx)):
                v("C09.cancel", "foreign_cancel" + late_sfx(tid), f"task {tid} observed cancellation although nobody cancelled its handle (teardown must wait, not cancel)")
        if t.get("hcancel") and ts is not None:
            hc = t["hcancel"][0]
            te = t.get("task_end", [None])[0]
            paused_after = [r for r in t.get("task_p", []) if r[0] > hc[0]]
            if te is not None and te[5]["how"] != "cancelled" and te[0] > hc[0] and paused_after:
                v("C09.cancel", "not_cancelled", f"task {tid} was cancelled through its handle at seq {hc[0]} but ended with {te[5]['how']}")
    # handle set exactness at every observation
    for r in tr:
        if r[4] != "handles":
            continue
        fid = r[5]["tf"]
        names = r[5]["names"]
        if not r[5].get("is_copy", True):
            v("C09.handles", "not_a_copy", "all_task_handles() returned the internal set")
        for tid, t in tasks.items():
            if t["tf"] != fid:
                continue
            se = t.get("spawn_end", [None])[0]
            te = t.get("task_end", [None])[0]
            we = (t.get("hwait_end") or [None])[0]
            if se is not None and se[5]["out"] == "error" and r[0] > se[0] and tid in names:
                v("C09.handles", "phantom_handle", f"all_task_handles() contains {tid} whose spawn failed")
            if se is not None and se[5]["out"] == "ok" and se[0] <= r[0] and (te is None or r[0] < te[0]) and tid not in names:
                ts = t.get("task_start", [None])[0]
                if ts is None and t.get("hcancel") and t["hcancel"][0][0] < r[0]:
                    continue  # cancelled before its first step: it may already be gone
                if te is None and exits.get(tfs[fid]["ctx"]) is not None and exits[tfs[fid]["ctx"]][0] < r[0]:
                    continue  # never ran to an end we can see (cancelled with its owner)
                v("C09.handles", "missing_live", f"all_task_handles() lacks {tid}, which was spawned and has not finished ({r[5]['where']})")
            if se is not None and se[5]["out"] == "ok" and t["begin"][0] < r[0] < se[0] and (te is None or r[0] < te[0]) and tid not in names:
                # start_task() / start_task_soon() has been called and will succeed: the task
                # is spawned from that moment on, also before it has taken its first step
                v("C09.handles", "missing_starting", f"all_task_handles() lacks {tid}, whose spawn had begun (and later succeeded) ({r[5]['where']})")
            if we is not None and r[0] > we[0] and tid in names:
                v("C09.handles", "stale", f"all_task_handles() still contains {tid} after wait_finished() returned")
        unknown = [n for n in names if n not in tasks]
        if unknown:
            v("C09.handles", "unknown", f"all_task_handles() contains unknown handles {unknown}")
        if r[5]["where"] == "final":
            if names:
                sfx = "@teardown_spawn" if all(late_sfx(n) for n in names) else ""
                v("C09.handles", "stale_final" + sfx, f"all_task_handles() of {fid} is {names} long after everything ended")
    # owner teardown waits for running tasks
    for fid, f in tfs.items():
        x = exits.get(f["ctx"])
        if x is None or teardown_cancelled(f["ctx"]) or teardown_cancelled(root_of(f["ctx"])):
            continue
        for tid, t in tasks.items():
            if t["tf"] != fid:
                continue
            se = t.get("spawn_end", [None])[0]
            if se is None or se[5]["out"] != "ok" or se[0] > x[0]:
                continue
            te = t.get("task_end", [None])[0]
            ts = t.get("task_start", [None])[0]
            late = late_sfx(tid)
            if te is None:
                if ts is not None or not t.get("hcancel"):
                    v("C09.teardown", "not_awaited" + late, f"owner context {f['ctx']} was left while task {tid} had not finished")
            elif te[0] > x[0]:
                v("C09.teardown", "not_awaited" + late, f"owner context {f['ctx']} was left before task {tid} finished")
    # exception handler
    handler_calls: dict[str, list] = {}
    for r in tr:
        if r[4] == "handler":
            handler_calls.setdefault(_h(_strip(r[5]["exc"])), []).append(r)
            if not r[5]["is_exception"]:
                v("C09.handler", "base_exception", f"exception handler called with a non-Exception {r[5]['exc']}")
    fspec = {f["id"]: f for f in _all_tfs(plan)}
    for tid, t in tasks.items():
        te = t.get("task_end", [None])[0]
        tdr = t.get("task_td_raise", [None])[0]
        if tdr is not None and te is not None and te[5]["how"] == "return":
            # the body returned, but the teardown of the task's own context raised: what
            # escapes the task is the teardown's exception group
            te = (tdr[0], tdr[1], tdr[2], tdr[3], "task_end", {"how": "raise", "exc": {"g": [tdr[5]["exc"]]}})
        if te is None or te[5]["how"] != "raise":
            continue
        exc = te[5]["exc"]
        if te[0] != first_failure:
            is_first = False
        else:
            is_first = True
        fs = fspec.get(t["tf"], {})
        late_spawn = late_sfx(tid)
        handler = fs.get("handler")
        is_exc = _is_exception_desc(exc)
        calls = handler_calls.get(_h(_strip(exc)), [])
        root = root_of(tfs[t["tf"]]["ctx"])
        x = exits.get(root)
        surfaced = x is not None and (exc in leaves(x[5]["exc"]) or _sub(exc, x[5]["exc"]))
        tds_ = (t.get("task_td_start") or [None])[0]
        tde_ = (t.get("task_td_end") or [None])[0]
        # (the exception reaches the handler only once the task's own context has been torn
        # down; a run that was cancelled and over before that never got there)
        cut_short = tds_ is not None and (tde_ is None or (x is not None and x[0] < tde_[0]))
        if handler and is_exc:
            if len(calls) != 1 and not (cut_short and not calls):
                v("C09.handler", "call_count", f"exception handler called {len(calls)} times for {exc} raised by task {tid}")
            truthy = handler in ("true", "one")
            if truthy and surfaced:
                v("C09.handler", "not_swallowed", f"{exc} from task {tid} was handled (truthy) but still came out of the root context")
            if not truthy and not surfaced and is_first and x is not None and not (cancel_seq is not None and cancel_seq < x[0]):
                v("C09.handler", "swallowed" + late_spawn, f"{exc} from task {tid}: handler returned a falsy value but the exception vanished (root raised {x[5]['exc']})")
        else:
            if calls and not is_exc:
                v("C09.handler", "base_exception", f"handler called for {exc}")
            if not surfaced and is_first and x is not None and not (cancel_seq is not None and cancel_seq < x[0]):
                v("C09.handler", "vanished" + late_spawn, f"{exc} escaping task {tid} (no handler / not an Exception) did not come out of the root context (root raised {x[5]['exc']})")
    for r in tr:
        if r[4] == "escaped" and cancel_seq is None:
            for p in PROPS:
                v(f"{p}.unexpected_exception", "escaped", f"exception escaped the workload: {r[5]['exc']}")
    return V


def _h(x: Any) -> str:
    return x if isinstance(x, str) else repr(x)


def _sub(d: Any, tree: Any) -> bool:
    """d (possibly a group description) occurs as a node inside tree."""
    if tree is None:
        return False
    if _strip(tree) == _strip(d):
        return True
    if isinstance(tree, dict):
        return any(_sub(d, x) for x in tree["g"])
    return False


def _strip(d: Any) -> Any:
    if isinstance(d, dict):
        return {"g": [_strip(x) for x in d["g"]]}
    return d


def _is_exception_desc(d: Any) -> bool:
    if isinstance(d, dict):
        return all(_is_exception_desc(x) for x in d["g"])
    return isinstance(d, str) and d.split(":", 1)[-1] in ("SimError", "SimLookup")


def _walk_acts(acts: Any):
    for a in acts:
        yield a
        if a[0] == "child":
            yield from _walk_acts(a[1].get("body", ()))
        elif a[0] == "par":
            for br in a[1]:
                yield from _walk_acts(br["body"])
        elif a[0] == "spawn":
            yield from _walk_acts(a[1]["task"].get("acts", ()))


def _all_svcs(plan: dict):
    for a in _walk_acts(plan["root"].get("body", ())):
        if a[0] == "svc":
            yield a[1]
        elif a[0] == "td" and a[1].get("svc"):
            yield a[1]["svc"]


def _all_tfs(plan: dict):
    for a in _walk_acts(plan["root"].get("body", ())):
        if a[0] == "tf":
            yield a[1]


def _all_tasks(plan: dict):
    for a in list(_walk_acts(plan["root"].get("body", ()))) + list(_walk_acts(plan.get("after", ()))):
        if a[0] == "spawn":
            yield a[1]["task"]


# ============================================================================ generator
class G:
    def __init__(self, rng: random.Random, tier: str, prop: str) -> None:
        self.rng = rng
        self.tier = tier
        self.prop = prop
        self.n = 0
        self.nctx = 0
        self.nsvc = 0
        self.tfs: list[str] = []
        self.tids: list[str] = []
        self.ntask = 0
        self.no_svc = 0
        self.nrf = 0

    def nid(self, p: str) -> str:
        self.n += 1
        return f"{p}{self.n}"

    def svc(self, crash_ok: bool) -> list:
        rng = self.rng
        self.nsvc += 1
        action = pick(rng, {"cancel": 3, "call": 4, "none": 2})
        body: dict[str, Any] = {}
        spec: dict[str, Any] = {"name": self.nid("s"), "action": action, "body": body}
        if action == "cancel":
            body["mode"] = pick(rng, {"until_cancel": 4, "ends_at": 1})
            if rng.random() < 0.5:
                spec["explicit"] = True
        elif action == "none":
            body["mode"] = "ends_at"
        else:
            raises = None
            if rng.random() < 0.35:
                raises = pick(rng, {"SimError": 3, "SimFatal": 1.5, "KI": 0.5, "CE": 0.7})
            act = {"kind": pick(rng, {"sync": 3, "async": 3, "sync_aw": 1, "aw_obj": 1}), "dur": rng.choice(DTS[:5])}
            if raises:
                act["raises"] = raises
                act["signal"] = False
                body["mode"] = pick(rng, {"until_cancel": 3, "until_signal": 2})
            else:
                act["signal"] = True
                body["mode"] = pick(rng, {"until_signal": 4, "ends_at": 1})
            if rng.random() < 0.15:
                act["wrap"] = rng.choice(("obj", "falsy", "unhashable"))
            spec["act"] = act
        if body["mode"] == "ends_at":
            body["life"] = rng.choice(DTS[1:])
        if body["mode"] == "until_signal":
            body["wind_down"] = rng.choice(DTS[:5])
        if rng.random() < 0.5:
            body["cleanup"] = rng.choice(DTS[1:6])
        if rng.random() < 0.3:
            body["start_delay"] = rng.choice(DTS[:4])
        if rng.random() < 0.25:
            body["task_status"] = False
            body.pop("start_delay", None)
        if rng.random() < 0.4:
            body["own_td"] = [
                {"id": self.nid("o"), "dur": rng.choice(DTS[:5]), "shield": rng.random() < 0.6}
                for _ in range(rng.randint(1, 2))
            ]
        if crash_ok and rng.random() < 0.12:
            if rng.random() < 0.5:
                body["mode"] = "crash"
                body["life"] = rng.choice(DTS[1:])
                body["cls"] = pick(rng, {"SimError": 3, "SimFatal": 1, "group": 0.5})
            elif action == "cancel" or (action == "call" and spec["act"].get("raises")):
                body["raise_in_cleanup"] = pick(rng, {"SimError": 3, "SimFatal": 1})
                for o in body.get("own_td", ()):
                    o["shield"] = True
        return ["svc", spec]

    def task(self, depth: int = 0) -> dict:
        rng = self.rng
        self.ntask += 1
        tid = f"k{self.ntask}"
        self.tids.append(tid)
        t: dict[str, Any] = {"tid": tid}
        acts: list = []
        for _ in range(rng.randint(0, 3)):
            r = rng.random()
            if r < 0.6:
                acts.append(rpause(rng, 0.2))
            elif r < 0.75 and depth < 1 and self.tfs and self.ntask < 8:
                acts.append(["spawn", {"tf": rng.choice(self.tfs), "how": "soon", "task": self.task(depth + 1)}])
            else:
                acts.append(["handles"])
        t["acts"] = acts
        r = rng.random()
        if r < 0.25:
            t["end"] = "raise"
            t["cls"] = pick(rng, {"SimError": 4, "SimLookup": 1.5, "SimFatal": 0.8})
        if rng.random() < 0.25:
            t["cleanup"] = rng.choice(DTS[1:5])
        if rng.random() < 0.2:
            t["sync_part"] = True
        elif rng.random() < 0.1:
            t["uh_obj"] = True
        if "end" not in t and rng.random() < 0.12:
            t["own_td_raise"] = pick(rng, {"SimError": 3, "SimLookup": 1})
        elif rng.random() < 0.15:
            t["own_td"] = rng.choice(DTS[1:5])
        return t

    def spawn(self) -> list:
        rng = self.rng
        t = self.task()
        how = "start" if rng.random() < 0.45 else "soon"
        if how == "start" and rng.random() < 0.7:
            t["started_delay"] = rng.choice(DTS[:4])
        spec: dict[str, Any] = {"tf": rng.choice(self.tfs), "how": how, "task": t}
        if rng.random() < 0.25:
            spec["extra_ctx"] = True
        return ["spawn", spec]

    def body(self, depth: int, n: int, crash_ok: bool) -> list:
        rng = self.rng
        out: list = []
        w_svc = 3.0 if self.prop == "C08" else 0.6
        w_tf = 0.3 if self.prop == "C08" else 1.5
        for _ in range(n):
            op = pick(
                rng,
                {
                    "p": 2,
                    "res": 2,
                    "td": 1.5,
                    "svc": w_svc if self.nsvc < 4 and not self.no_svc else 0,
                    "resfac": 0.8 if depth == 0 and self.nrf < 4 else 0,
                    "child": 0.8 if depth < 2 and self.nctx < 4 else 0,
                    "par": 0.7 if depth < 2 else 0,
                    "tf": w_tf if len(self.tfs) < 2 else 0,
                    "spawn": (3.0 if self.prop == "C09" else 0.5) if self.tfs and self.ntask < 8 else 0,
                    "hcancel": 0.8 if self.tids else 0,
                    "hwait": 0.8 if self.tids else 0,
                    "handles": 0.8 if self.tfs else 0,
                },
            )
            if op == "p":
                out.append(rpause(rng, 0.25))
            elif op == "res":
                out.append(["res", {"rid": self.nid("r"), "async": rng.random() < 0.5, "dur": rng.choice(DTS[:5])}])
            elif op == "td":
                tdspec: dict[str, Any] = {"id": self.nid("c"), "async": rng.random() < 0.6, "dur": rng.choice(DTS[:5])}
                if self.prop == "C08" and rng.random() < 0.12:
                    tdspec["raises"] = rng.choice(("SimError", "SimFatal", "KI", "SE"))
                if self.prop == "C08" and tdspec["async"] and rng.random() < 0.15 and self.nsvc < 4 and not self.no_svc:
                    late = self.svc(False)[1]
                    late["body"].pop("start_delay", None)
                    tdspec["svc"] = late
                out.append(["td", tdspec])
            elif op == "resfac":
                self.nrf += 1
                out.append(["resfac", {"rid": self.nid("q")}])
            elif op == "svc":
                sv = self.svc(crash_ok)
                if depth > 0 and rng.random() < 0.2:
                    sv[1]["on"] = "x1"
                out.append(sv)
            elif op == "child":
                self.nctx += 1
                saved = list(self.tfs)
                local = self.prop == "C09" and rng.random() < 0.3
                if local:
                    # a sub-context that owns task factories (no service tasks) under a timeout
                    # narrower than the root
                    self.no_svc += 1
                b = {"id": f"x{self.nctx + 1}", "body": self.body(depth + 1, rng.randint(1, 5), crash_ok and not local), "catch": True, "end": {"how": "return"}}
                if local:
                    self.no_svc -= 1
                    b["deadline"] = rng.choice((0.25, 0.5, 1.0, 2.0, 3.0))
                if rng.random() < 0.15:
                    b["end"] = {"how": "raise", "exc": "SimError"}
                # factories of a closed child context must not be used by the parent's later actions
                self.tfs = saved
                out.append(["child", b])
            elif op == "par":
                brs = []
                for i in range(rng.randint(2, 3)):
                    brs.append({"name": self.nid("t"), "body": self.body(depth + 2, rng.randint(1, 3), False)})
                out.append(["par", brs])
            elif op == "tf":
                fid = self.nid("f")
                handler = pick(rng, {"": 3, "true": 2, "false": 1.5, "none": 0.7, "one": 0.5, "zero": 0.5})
                tfspec: dict = {"id": fid, "handler": handler or None}
                if handler and rng.random() < 0.25:
                    tfspec["handler_obj"] = True
                if depth > 0 and rng.random() < 0.2:
                    tfspec["on"] = "x1"
                out.append(["tf", tfspec])
                self.tfs.append(fid)
            elif op == "spawn":
                out.append(self.spawn())
            elif op == "hcancel":
                out.append(["hcancel", {"task": rng.choice(self.tids)}])
            elif op == "hwait":
                out.append(["hwait", {"task": rng.choice(self.tids)}])
            elif op == "handles":
                out.append(["handles", {"tf": rng.choice(self.tfs)}])
        return out


def gen(rng: random.Random, tier: str, prop: str) -> dict:
    g = G(rng, tier, prop)
    backend = "asyncio" if rng.random() < 0.6 else "trio"
    n = rng.randint(2, 8 if tier == "quick" else 12)
    burst = prop == "C08" and rng.random() < 0.07
    if burst:
        g.no_svc += 1
    root = {"id": "x1", "body": g.body(0, n, True), "catch": True, "end": {"how": "return"}}
    if burst:
        # scale knob: one context owns a long uninterrupted run of service tasks (and, often,
        # one more is started while it is closing)
        g.no_svc -= 1
        run_ = [g.svc(False) for _ in range(rng.choice((8, 9, 12, 15, 15, 16, 17, 31)))]
        pos = rng.randint(0, len(root["body"]))
        root["body"][pos:pos] = run_
        if rng.random() < 0.6:
            late = g.svc(False)[1]
            late["body"].pop("start_delay", None)
            root["body"].insert(0, ["td", {"id": g.nid("c"), "async": True, "dur": rng.choice(DTS[:5]), "svc": late}])
    if rng.random() < 0.08:
        root["ballast"] = rng.choice((12, 13, 31, 32, 33, 40))
    plan: dict[str, Any] = {
        "v": 1,
        "world": NAME,
        "property": prop,
        "backend": backend,
        "sched": {"policy": rng.choice(("uniform", "coin", "prio", "fifo")), "seed": rng.getrandbits(32)},
        "root": root,
    }
    if rng.random() < 0.1:
        root["end"] = {"how": "raise", "exc": pick(rng, {"SimError": 3, "SimFatal": 1})}
    all_tfs = [f["id"] for f in _all_tfs(plan)]
    if all_tfs and rng.random() < 0.5:
        g.tfs = all_tfs
        plan["after"] = [g.spawn() for _ in range(rng.randint(1, 2))]
        for a in plan["after"]:
            a[1].pop("extra_ctx", None)
    if rng.random() < 0.12:
        plan["cancel"] = {"frac": round(rng.random(), 4)}
    return plan


SIMPLEST = {"action": "cancel"}
