"""World W5 "events": signals, streams, dispatch (C10) and channel identity (C11).

Oracle for C10 is an exact executable model of every subscriber's bounded queue (anyio
memory object stream: direct hand-off to a parked receiver, else buffer if there is room,
else WouldBlock) driven by the recorded history: subscribe/unsubscribe instants, every
dispatch, every pull, every filter call and the scheduler steps of the consumer tasks
(a consumer dequeues-or-parks at its first step after calling __anext__).  It predicts,
for every dispatch and every subscriber, whether the event is delivered, buffered or
dropped - hence the exact pulled sequences and the exact number of SignalQueueFull
warnings per dispatch.
"""
from __future__ import annotations

import gc
import hashlib
import random
import warnings
import weakref
from typing import Any

import anyio
from anyio import create_task_group, move_on_after

import asphalt.core._event as _event_mod
from asphalt.core import Event, Signal, SignalQueueFull, UnboundSignal, stream_events, wait_event

from ..core import Sim, run_sim
from .common import DTS, contains_cancel, is_cancel, pick, rpause

NAME = "events"
PROPS = ("C10", "C11")


class FilterBoom(Exception):
    """Raised by a subscriber's own filter function."""


class Ev0(Event):
    def __init__(self, n: int) -> None:
        self.n = n


class Ev1(Event):
    def __init__(self, n: int) -> None:
        self.n = n


class Ev1b(Ev1):
    pass


def _lookalike(cls: type) -> type:
    """Another class with the very same module and qualified name (what a class factory
    called twice, or a reloaded module, produces): a *different* event class."""

    def __init__(self: Any, n: int) -> None:
        self.n = n

    return type(cls.__name__, (Event,), {"__init__": __init__, "__module__": cls.__module__, "__qualname__": cls.__qualname__})


EVS = [Ev0, Ev1, Ev1b, _lookalike(Ev0), _lookalike(Ev1)]


def make_classes(spec: list) -> list:
    out: list = []
    for c in spec:
        ns: dict[str, Any] = {}
        for s in c["signals"]:
            ns[s["attr"]] = Signal(EVS[s["ev"]])
        bases: tuple = (out[c["base"]],) if c.get("base") is not None else (object,)
        if c.get("bases"):
            # several independent bases (mix-ins), each declaring signals of its own
            bases = tuple(out[i] for i in c["bases"])
        if c.get("falsy") == "len":
            # an owner that is an (empty) container: a perfectly good, falsy instance
            ns["__len__"] = lambda self: 0
        elif c.get("falsy") == "bool":
            ns["__bool__"] = lambda self: False
        if c.get("eq"):
            # value semantics: all instances of the class compare (and hash) equal - they are
            # still different instances with channels of their own
            ns["__eq__"] = lambda self, other: type(other) is type(self)
            ns["__hash__"] = lambda self: 7
        out.append(type(c["name"], bases, ns))
    return out


def declared(spec: list, ci: int) -> dict:
    """attr -> event class index for class ci including inherited signals."""
    d: dict = {}
    c = spec[ci]
    if c.get("base") is not None:
        d.update(declared(spec, c["base"]))
    for bi in reversed(c.get("bases") or ()):
        d.update(declared(spec, bi))  # (the first base wins, as in the MRO)
    for s in c["signals"]:
        d[s["attr"]] = s["ev"]
    return d


class H:
    def __init__(self, sim: Sim, plan: dict) -> None:
        self.sim = sim
        self.plan = plan
        self.classes = make_classes(plan["classes"])
        self.inst: dict[str, Any] = {}
        self.first: dict[tuple, Any] = {}
        self.n = 0
        for i in plan["instances"]:
            if i.get("copy_of") in self.inst:
                # a shallow copy of an instance whose signals have already been used
                import copy as _copy

                orig = i["copy_of"]
                for attr in sorted(declared(plan["classes"], i["cls"])):
                    self.sig([orig, attr])
                self.inst[i["id"]] = _copy.copy(self.inst[orig])
            else:
                self.inst[i["id"]] = self.classes[i["cls"]]()
        self.inst_id = {id(o): k for k, o in self.inst.items()}

    def sig(self, chan: list) -> Any:
        s = getattr(self.inst[chan[0]], chan[1])
        key = (chan[0], chan[1])
        if key not in self.first:
            self.first[key] = s
            self.sim.log("first_access", chan=list(chan))
        return s

    def ident(self, where: str) -> None:
        """C11 identity observation over every (instance, attribute) pair touched so far."""
        sim = self.sim
        bad_same = []
        for (iid, attr), s in self.first.items():
            if getattr(self.inst[iid], attr) is not s:
                bad_same.append([iid, attr])
        items = list(self.first.items())
        shared = []
        for a in range(len(items)):
            for b in range(a + 1, len(items)):
                if items[a][1] is items[b][1]:
                    shared.append([list(items[a][0]), list(items[b][0])])
        sim.log("ident", where=where, changed=bad_same, shared=shared, n=len(items))

    # ---------------------------------------------------------------- dispatch
    def dispatch(self, chan: list, evi: Any = None, task: str = "", relay: bool = False) -> None:
        sim = self.sim
        spec = self.plan["classes"]
        iid, attr = chan
        cls_i = next(i["cls"] for i in self.plan["instances"] if i["id"] == iid)
        want_ev = declared(spec, cls_i)[attr]
        use = want_ev if evi is None else evi
        self.n += 1
        n = self.n
        ev = EVS[use](n)
        s = self.sig(chan)
        t_expect = sim.wall_time()
        exc = None
        with warnings.catch_warnings(record=True) as wl:
            warnings.simplefilter("always")
            try:
                if relay:
                    # the event object has been dispatched before, on the same signal of
                    # another owner (an event being relayed): this dispatch stamps it anew
                    scratch = type(self.inst[iid])()
                    getattr(scratch, attr).dispatch(ev)
                s.dispatch(ev)
            except BaseException as e:  # noqa: BLE001
                exc = f"{type(e).__name__}"
        nwarn = sum(1 for w in wl if issubclass(w.category, SignalQueueFull))
        ok_class = issubclass(EVS[use], EVS[want_ev])
        sim.log(
            "dispatch",
            n=n,
            chan=list(chan),
            ev=use,
            ok_class=ok_class,
            nwarn=nwarn,
            exc=exc,
            t_expect=t_expect,
            stamped=(
                getattr(ev, "source", None) is self.inst[iid],
                getattr(ev, "topic", None) == attr,
                getattr(ev, "time", None) == t_expect,
            )
            if exc is None
            else None,
        )

    # ---------------------------------------------------------------- tasks
    async def run_task(self, t: dict) -> None:
        kind = t["kind"]
        if kind == "sub":
            await self.subscriber(t)
        elif kind == "disp":
            await self.dispatcher(t)
        elif kind == "misc":
            await self.misc(t)

    async def dispatcher(self, t: dict) -> None:
        sim = self.sim
        for a in t["acts"]:
            if a[0] == "p":
                await sim.pause(a[1], a[2])
            elif a[0] == "d":
                self.dispatch(a[1])
            elif a[0] == "dr":
                self.dispatch(a[1], relay=True)
            elif a[0] == "dbad":
                sim.fault("wrong_class_dispatch")
                self.dispatch(a[1], a[2])
            elif a[0] == "jump":
                sim.wall_skew += a[1]
                sim.fault("wall_clock_jump")
            elif a[0] == "ident":
                self.ident("disp")

    async def subscriber(self, t: dict) -> None:
        sim = self.sim
        name = t["name"]
        await sim.pause(*t.get("start", (0, 0.0)))
        sigs = [self.sig(c) for c in t["chans"]]
        f = t.get("filter")
        flt = None
        if f is not None:

            ncalls = [0]

            def flt(ev: Any) -> bool:
                ncalls[0] += 1
                if f.get("boom_at") == ncalls[0]:
                    # the subscriber's own filter fails: its stream dies, it stays subscribed
                    sim.log("filter_seen", sub=name, n=ev.n, ok=False, boom=True)
                    sim.fault("filter_raised")
                    raise FilterBoom(f"filter of {name}")
                ok = ev.n % f["mod"] == f["rem"]
                sim.log("filter_seen", sub=name, n=ev.n, ok=ok)
                return ok

        if flt is not None and f.get("obj"):
            # the filter is a callable object, and a falsy one (an empty rule set)
            inner_flt = flt

            class _Rules:
                def __len__(self_) -> int:
                    return 0

                def __call__(self_, ev: Any) -> bool:
                    return inner_flt(ev)

            flt = _Rules()  # type: ignore[assignment]
        q = t.get("q", 50)
        leave = t.get("leave", {})
        deadline = leave.get("at")

        async def consume() -> None:
            if t.get("wait"):
                sim.log("sub_enter_soon", sub=name, chans=t["chans"], q=50, filter=f, wait=True)
                sim.log("pull_begin", sub=name)
                try:
                    if len(sigs) == 1 and t.get("method", True):
                        ev = await sigs[0].wait_event(flt)
                    else:
                        ev = await wait_event(sigs, flt)
                except FilterBoom:
                    sim.log("pull_boom", sub=name)
                    sim.log("sub_exit", sub=name)
                    return
                sim.log("pull_end", sub=name, n=ev.n, src=self.inst_id.get(id(ev.source)), topic=ev.topic, time=ev.time)
                sim.log("sub_exit", sub=name)
                return
            if len(sigs) == 1 and t.get("method", True):
                cm = sigs[0].stream_events(flt, max_queue_size=q) if "q" in t else sigs[0].stream_events(flt)
            else:
                cm = stream_events(sigs, flt, max_queue_size=q) if "q" in t else stream_events(sigs, flt)
            async with cm as stream:
                # the caller re-uses its list of signals while the stream is open
                sigs.clear()
                sim.log("sub_enter", sub=name, chans=t["chans"], q=q, filter=f)
                try:
                    for p in t.get("pulls", ()):
                        await sim.pause(p[0], p[1])
                        sim.log("pull_begin", sub=name)
                        try:
                            ev = await stream.__anext__()
                        except FilterBoom:
                            # handled by the consumer, which stays in the block for a while
                            sim.log("pull_boom", sub=name)
                            break
                        sim.log("pull_end", sub=name, n=ev.n, src=self.inst_id.get(id(ev.source)), topic=ev.topic, time=ev.time)
                    await sim.pause(*leave.get("linger", (0, 0.0)))
                    if leave.get("raise"):
                        raise RuntimeError("subscriber body failed")
                finally:
                    sim.log("sub_exit", sub=name)

        try:
            if deadline is not None:
                sim.log("sub_deadline", sub=name, at=sim.now() + deadline)
                with move_on_after(deadline) as scope:
                    await consume()
                if scope.cancelled_caught:
                    sim.fault("subscriber_cancelled")
                    sim.log("sub_cancelled", sub=name)
            else:
                await consume()
        except RuntimeError as e:
            if "subscriber body failed" not in str(e):
                raise
            sim.fault("subscriber_raised")

    async def misc(self, t: dict) -> None:
        sim = self.sim
        for a in t["acts"]:
            op = a[0]
            if op == "p":
                await sim.pause(a[1], a[2])
            elif op == "ident":
                self.ident("misc")
            elif op == "unbound":
                cls = self.classes[a[1]]
                attr = a[2]
                res = {}
                d = getattr(cls, attr)
                whats = ["dispatch", "stream", "wait", "module_stream"]
                bound = None
                if len(a) > 3 and a[3]:
                    # a bound signal listed *before* the class-level one: the call must fail
                    # as a whole and leave the bound channel exactly as it was
                    bound = self.sig(a[3])
                    whats += ["mixed_stream", "mixed_wait"]
                for what in whats:
                    try:
                        if what == "dispatch":
                            d.dispatch(Ev0(0))
                        elif what == "stream":
                            async with d.stream_events():
                                pass
                        elif what == "wait":
                            with move_on_after(0.25):
                                await d.wait_event()
                        elif what == "mixed_stream":
                            async with stream_events([bound, d]):
                                pass
                        elif what == "mixed_wait":
                            with move_on_after(0.25):
                                await wait_event([bound, d])
                        else:
                            async with stream_events([d]):
                                pass
                        res[what] = "accepted"
                    except UnboundSignal:
                        res[what] = "UnboundSignal"
                    except BaseException as e:  # noqa: BLE001
                        if is_cancel(e):
                            raise
                        res[what] = type(e).__name__
                sim.log("unbound", cls=a[1], attr=attr, res=res, is_declaration=isinstance(d, Signal))
                if bound is not None:
                    self.dispatch(a[3])
            elif op == "gcprobe":
                await self.gcprobe(a[1])
            elif op == "ctx_owner":
                await self.ctx_owner()

    async def ctx_owner(self) -> None:
        """The owner of the signals is a Context (subclass) that is entered and left: its
        bound signals stay what they were - before, inside and after."""
        from asphalt.core import Context as _Context

        sim = self.sim

        class SigCtx(_Context):
            changed = Signal(Ev0)

        c = SigCtx()
        before = (c.changed, c.resource_added)
        got: list = []
        async with c.changed.stream_events() as stream:
            async with c:
                inside = (c.changed, c.resource_added)
            after = (c.changed, c.resource_added)
            e = Ev0(-7)
            c.changed.dispatch(e)
            with move_on_after(0.5):
                ev = await stream.__anext__()
                got.append(ev is e and ev.source is c)
        sim.log(
            "ctx_owner",
            same_inside=all(x is y for x, y in zip(before, inside)),
            same_after=all(x is y for x, y in zip(before, after)),
            delivered_after=bool(got and got[0]),
        )

    async def gcprobe(self, spec: dict) -> None:
        """Bind and use signals of short-lived instances; they must be collectable, and a new
        instance (possibly at the same address) must get its own channels."""
        sim = self.sim
        cls = self.classes[spec["cls"]]
        attrs = sorted(declared(self.plan["classes"], spec["cls"]))
        results = []
        for rnd in range(spec.get("rounds", 2)):
            attr = attrs[rnd % len(attrs)]
            other = attrs[(rnd + 1) % len(attrs)] if len(attrs) > 1 else None
            evc = EVS[declared(self.plan["classes"], spec["cls"])[attr]]
            # 1. a short-lived instance delivers to its own subscriber
            o = cls()
            got: list = []
            if other is not None:
                getattr(o, other)  # (another signal of the owner is the first one ever touched)
            async with getattr(o, attr).stream_events() as stream:
                e = evc(-1 - rnd)
                getattr(o, attr).dispatch(e)
                getattr(o, attr).dispatch(evc(-100 - rnd))
                ev = await stream.__anext__()
                got.append(ev is e and ev.source is o and ev.topic == attr)
            same = getattr(o, attr) is getattr(o, attr)
            ref1 = weakref.ref(o)
            del o, ev, e, stream
            if ref1() is not None:
                gc.collect()
            collected = ref1() is None
            # 2. such an instance is collectable, and a new instance at its address gets
            # channels of its own.  Whether the allocator hands the freed block out again is
            # up to it: try (without a single suspension point, so that the number of tries
            # leaves no mark on the schedule) until it has.
            fresh_ok = True
            for _attempt in range(12):
                o = cls()
                if other is not None:
                    getattr(o, other)
                getattr(o, attr)
                getattr(o, attr).dispatch(evc(-3 - rnd))
                ref = weakref.ref(o)
                old_id = id(o)
                del o
                if ref() is not None:
                    gc.collect()
                collected = collected and ref() is None
                batch = [cls() for _ in range(256)]
                batch.sort(key=lambda ob: id(ob) != old_id)
                if id(batch[0]) == old_id:
                    break
            for ob in batch[:24]:
                e2 = evc(-1000)
                getattr(ob, attr).dispatch(e2)
                if e2.source is not ob or e2.topic != attr or getattr(ob, attr) is not getattr(ob, attr):
                    fresh_ok = False
            del batch
            # 3. an owner is collectable while somebody who holds only its *bound signal* is
            # still subscribed to it - and what later instances of the class dispatch (the one
            # at the collected owner's address first) is none of that subscriber's business
            collected_subscribed = True
            stale: list = []
            for _attempt in range(12):
                o2 = cls()
                if other is not None:
                    getattr(o2, other)
                sig2 = getattr(o2, attr)
                ref2 = weakref.ref(o2)
                old2 = id(o2)
                cm2 = sig2.stream_events()
                stream2 = await cm2.__aenter__()  # (subscribing never suspends)
                del o2
                if ref2() is not None:
                    gc.collect()
                collected_subscribed = collected_subscribed and ref2() is None
                later = [cls() for _ in range(128)]
                later.sort(key=lambda ob: id(ob) != old2)
                if id(later[0]) == old2 or _attempt == 11:
                    break
                stale.append(cm2)
                del later
            adopted = any(getattr(ob, attr) is sig2 for ob in later[:4])
            for ob in later[:4]:
                getattr(ob, attr).dispatch(evc(-2000))
            leaked = False
            with move_on_after(0.25):
                await stream2.__anext__()
                leaked = True
            del later
            for cm in stale + [cm2]:
                await cm.__aexit__(None, None, None)
            del stream2, cm2, sig2, stale
            results.append({"delivered_own": got[0] and fresh_ok, "same": same, "collected": collected, "collected_subscribed": collected_subscribed, "stale_leak": leaked or adopted})
        sim.log("gcprobe", cls=spec["cls"], results=results)


def make_main(plan: dict):
    async def main(sim: Sim) -> None:
        h = H(sim, plan)
        sim.user["h"] = h
        old = _event_mod.stdlib_time
        _event_mod.stdlib_time = sim.wall_time
        try:
            for chan in plan.get("access_order", ()):
                h.sig(chan)
            h.ident("start")
            async with create_task_group() as tg:
                for t in plan["tasks"]:
                    tg.start_soon(h.run_task, t, name="w:" + t["name"])
            h.ident("end")
            sim.log("all_done")
        except BaseException as e:
            sim.log("escaped", exc=f"{type(e).__name__}: {str(e)[:100]}")
            if sim.aborting and is_cancel(e):
                raise
        finally:
            _event_mod.stdlib_time = old

    return main


def execute(plan: dict, *, want_digest: bool = False, want_trace: bool = False) -> dict:
    sim = Sim(plan)
    sim.user["full_steps"] = []
    _install_full_steps(sim)
    run_sim(sim, make_main(plan))
    viol = oracle(sim, plan)
    res = {
        "violations": viol,
        "faults": dict(sim.faults),
        "probes": dict(sim.probes),
        "steps": sim.step,
        "vtime": sim.end_time,
        "sig": sim.signature(),
        "deadlock": sim.deadlock,
        "crashed": sim.crashed,
        "step_limit": sim.step_limit,
        "nontrivial": len({r[3] for r in sim.trace}) >= 2 or sum(sim.faults.values()) > 0,
        "final": _final(sim),
    }
    if want_digest:
        res["digest"] = sim.digest()
    if want_trace:
        res["trace"] = sim.dump_trace()
    return res


def _install_full_steps(sim: Sim) -> None:
    """Record (step -> task label) for every scheduler step (needed by the queue model)."""
    full = sim.user["full_steps"]
    orig = sim._on_step

    def on_step(step: int, label: str) -> None:
        full.append((step, label))
        orig(step, label)

    sim._on_step = on_step  # type: ignore[method-assign]
    sim._aio_step = on_step  # type: ignore[method-assign]
    orig_trio = sim._trio_step

    def trio_step(task: Any) -> None:
        orig_trio(task)
        full.append((sim.step, task.name))

    sim._trio_step = trio_step  # type: ignore[method-assign]


def _final(sim: Sim) -> str:
    h = hashlib.blake2b(digest_size=8)
    for r in sim.trace:
        if r[4] in ("pull_end", "dispatch"):
            h.update(repr((r[4], r[5].get("n"), r[5].get("sub"), r[5].get("nwarn"))).encode())
    return h.hexdigest()


# =============================================================================== oracle
class MSub:
    def __init__(self, name: str, chans: list, q: int, flt: Any, label: str) -> None:
        self.name = name
        self.chans = {tuple(c) for c in chans}
        self.q = q
        self.flt = flt
        self.label = label
        self.buffer: list[int] = []
        self.parked = False
        self.pending_take_step: int | None = None  # resolved at the consumer's next step
        self.in_hand: list[int] = []  # delivered to the consumer, awaiting filter/pull_end
        self.active = False
        self.fuzzy = False
        self.deadline: float | None = None
        self.expected_pulled: list[int] = []
        self.pulled: list[int] = []


def oracle(sim: Sim, plan: dict) -> list[dict]:
    V: list[dict] = []
    seen: set = set()

    def v(rule: str, key: str, msg: str) -> None:
        if (rule, key, msg) in seen:
            return
        seen.add((rule, key, msg))
        if len(V) < 60:
            V.append({"rule": rule, "key": key, "msg": msg})

    if sim.step_limit:
        return V
    if sim.deadlock:
        for p in PROPS:
            v(f"{p}.deadlock", "deadlock", "run deadlocked")
        return V
    tr = sim.trace
    full = sim.user.get("full_steps", [])
    steps_of: dict[str, list[int]] = {}
    for st, lab in full:
        steps_of.setdefault(lab, []).append(st)

    def next_step(label: str, after: int) -> int | None:
        import bisect

        arr = steps_of.get(label, [])
        i = bisect.bisect_right(arr, after)
        return arr[i] if i < len(arr) else None

    tasks = {t["name"]: t for t in plan["tasks"]}
    subs: dict[str, MSub] = {}
    cls_of = {i["id"]: i["cls"] for i in plan["instances"]}

    def resolve(m: MSub, upto_step: int) -> None:
        """The consumer dequeues-or-parks at its first step after asking for an item."""
        if m.pending_take_step is not None and m.pending_take_step <= upto_step:
            m.pending_take_step = None
            if m.buffer:
                m.in_hand.append(m.buffer.pop(0))
            else:
                m.parked = True

    for r in tr:
        seq, step, t, task, kind, d = r
        for m in subs.values():
            if m.active:
                resolve(m, step if task == m.label else step - 1)
        if kind in ("sub_enter", "sub_enter_soon"):
            m = MSub(d["sub"], d["chans"], d["q"], d.get("filter"), task)
            m.active = True
            subs[d["sub"]] = m
            dl = next((x for x in tr if x[4] == "sub_deadline" and x[5]["sub"] == d["sub"]), None)
            if dl is not None:
                m.deadline = dl[5]["at"]
        elif kind == "sub_exit":
            m = subs.get(d["sub"])
            if m is not None:
                m.active = False
        elif kind == "pull_begin":
            m = subs.get(d["sub"])
            if m is None:
                continue
            ns = next_step(m.label, step)
            m.pending_take_step = ns if ns is not None else 10**12
        elif kind == "filter_seen":
            m = subs.get(d["sub"])
            if m is None or m.fuzzy:
                continue
            resolve(m, step)
            if not m.in_hand or m.in_hand[0] != d["n"]:
                v(
                    "C10.sequence",
                    "filter_order",
                    f"subscriber {m.name} was handed event {d['n']}; the queue model says the next one is "
                    f"{m.in_hand[0] if m.in_hand else None} (buffer {m.buffer})",
                )
                if d["n"] in m.in_hand:
                    m.in_hand.remove(d["n"])
            else:
                m.in_hand.pop(0)
            if d.get("boom"):
                # consumed by the failing filter; the stream is dead: nothing is taken any more
                m.pending_take_step = None
                continue
            want_ok = d["n"] % m.flt["mod"] == m.flt["rem"] if m.flt else True
            if not d["ok"]:
                sim.probe("filter_reject")
            if d["ok"]:
                m.in_hand.insert(0, d["n"])  # still to be yielded by pull_end
            else:
                ns = next_step(m.label, step)
                m.pending_take_step = ns if ns is not None else 10**12
        elif kind == "pull_end":
            m = subs.get(d["sub"])
            if m is None:
                continue
            m.pulled.append(d["n"])
            if m.fuzzy:
                continue
            resolve(m, step)
            if not m.in_hand or m.in_hand[0] != d["n"]:
                key = "unexpected"
                if d["n"] in m.pulled[:-1]:
                    key = "duplicate"
                v(
                    "C10.sequence",
                    key,
                    f"subscriber {m.name} pulled event {d['n']}; the queue model expects "
                    f"{m.in_hand[0] if m.in_hand else None} (buffer {m.buffer})",
                )
                v(
                    "C11.channel",
                    "delivery",
                    f"subscriber {m.name} of channels {sorted(m.chans)} pulled event {d['n']}; what was dispatched on "
                    f"its channels (and fitted its queue) says {m.in_hand[0] if m.in_hand else None} comes next",
                )
                if d["n"] in m.in_hand:
                    m.in_hand.remove(d["n"])
            else:
                m.in_hand.pop(0)
            if m.flt and d["n"] % m.flt["mod"] != m.flt["rem"]:
                v("C10.filter", "passed", f"subscriber {m.name} received event {d['n']} which its filter rejects")
        elif kind == "dispatch":
            chan = tuple(d["chan"])
            if d["exc"] is not None:
                if d["ok_class"]:
                    v("C10.dispatch_raises", d["exc"], f"dispatch of event {d['n']} on {list(chan)} raised {d['exc']}")
                    v("C11.typecheck", "correct_class_rejected", f"dispatch of a correct-class event on {list(chan)} raised {d['exc']}")
                elif d["exc"] != "TypeError":
                    v("C11.typecheck", "wrong_exception", f"wrong-class event on {list(chan)} raised {d['exc']}, expected TypeError")
                continue
            if not d["ok_class"]:
                v("C11.typecheck", "wrong_class_accepted", f"event of class index {d['ev']} accepted on {list(chan)} which declares another event class")
            if d["stamped"] != (True, True, True):
                v("C10.stamp", "fields", f"event {d['n']} dispatched on {list(chan)}: (source ok, topic ok, time ok) = {d['stamped']}")
                if not d["stamped"][1] or not d["stamped"][0]:
                    v("C11.channel", "stamp", f"event {d['n']} dispatched on {list(chan)} carries the wrong source/topic: {d['stamped']}")
            drops = 0
            ambiguous = False
            for m in subs.values():
                if not m.active or chan not in m.chans:
                    continue
                if m.deadline is not None and t >= m.deadline - 1e-9:
                    m.fuzzy = True
                if m.fuzzy:
                    ambiguous = True
                    sim.probe("ambiguous_cancelled_subscriber")
                    continue
                if m.parked:
                    m.parked = False
                    m.in_hand.append(d["n"])
                    sim.probe("direct_handoff")
                elif len(m.buffer) < m.q:
                    m.buffer.append(d["n"])
                    sim.probe("buffered")
                else:
                    drops += 1
                    sim.probe("queue_overflow_drop")
            if not ambiguous and d["nwarn"] != drops:
                v(
                    "C10.overflow",
                    "warnings" if d["nwarn"] < drops else "spurious_warning",
                    f"dispatch of event {d['n']} on {list(chan)} issued {d['nwarn']} SignalQueueFull warnings; "
                    f"{drops} subscriber queue(s) were full",
                )
        elif kind == "ident":
            if d["changed"]:
                v("C11.identity", "changed", f"bound signal object changed for {d['changed']}")
            if d["shared"]:
                v("C11.identity", "shared_bound_signal", f"different (instance, attribute) pairs share one bound signal: {d['shared'][:3]}")
        elif kind == "unbound":
            for what, res in d["res"].items():
                if res != "UnboundSignal":
                    v("C11.unbound", what, f"class-level {what} on attribute {d['attr']} gave {res}, expected UnboundSignal")
            if not d["is_declaration"]:
                v("C11.unbound", "class_access", "class-level attribute access did not return the Signal declaration")
        elif kind == "ctx_owner":
            if not d["same_inside"] or not d["same_after"]:
                v("C11.identity", "changed_across_context_lifetime", f"bound signals of a Context owner changed identity when it was entered/left: {d}")
            if not d["delivered_after"]:
                v("C11.channel", "lost_after_owner_closed", f"a subscriber attached before a Context owner was closed did not get the event dispatched on it afterwards: {d}")
                v("C10.window", "lost_after_owner_closed", f"a subscriber attached before a Context owner was closed did not get the event dispatched on it afterwards: {d}")
        elif kind == "gcprobe":
            for i, res in enumerate(d["results"]):
                if not res["collected"]:
                    v("C11.weakref", "kept_alive", f"instance with bound+used signals was not collectable (round {i})")
                if res.get("collected_subscribed") is False:
                    v("C11.weakref", "kept_alive_by_subscription", f"an owner was not collectable while a subscriber held (only) its bound signal (round {i})")
                if res.get("stale_leak"):
                    v("C11.channel", "leak@subscriber_of_collected_owner", f"events dispatched on new instances reached a subscriber of the same signal of an owner that had been garbage collected (or the new instance was handed that owner's bound signal) (round {i})")
                    v("C10.window", "foreign_channel@subscriber_of_collected_owner", f"a subscriber of a garbage collected owner's signal received events dispatched on new instances of the class (round {i})")
                if not res["delivered_own"] or not res["same"]:
                    v("C11.channel", "fresh_instance", f"a fresh instance did not get its own working channel: {res}")
                    v("C10.stamp", "fresh_instance", f"an event dispatched on a fresh instance was not delivered to its own subscriber stamped with that instance as source: {res}")
        elif kind == "escaped":
            for p in PROPS:
                v(f"{p}.unexpected_exception", "escaped", f"exception escaped the workload: {d['exc']}")

    # pulled events carry the right stamps and come from the subscription's own channels
    disp = {r[5]["n"]: r for r in tr if r[4] == "dispatch"}
    for r in tr:
        if r[4] != "pull_end":
            continue
        d = r[5]
        src = disp.get(d["n"])
        m = subs.get(d["sub"])
        if src is None or m is None:
            v("C10.sequence", "unknown_event", f"subscriber {d['sub']} pulled unknown event {d['n']}")
            continue
        chan = tuple(src[5]["chan"])
        if chan not in m.chans:
            v("C10.window", "foreign_channel", f"subscriber {m.name} (channels {sorted(m.chans)}) received event {d['n']} dispatched on {list(chan)}")
            v("C11.channel", "leak", f"subscriber {m.name} (channels {sorted(m.chans)}) received event {d['n']} dispatched on {list(chan)}")
        if d["src"] != chan[0] or d["topic"] != chan[1] or d["time"] != src[5]["t_expect"]:
            v("C10.stamp", "pulled", f"event {d['n']} pulled by {m.name}: source={d['src']} topic={d['topic']} time={d['time']}; dispatched on {list(chan)} at {src[5]['t_expect']}")
        enter = next((x[0] for x in tr if x[4] in ("sub_enter", "sub_enter_soon") and x[5]["sub"] == m.name), None)
        if enter is not None and src[0] < enter:
            v("C10.window", "before_enter", f"subscriber {m.name} received event {d['n']} dispatched before it subscribed")
    for m in subs.values():
        if len(set(m.pulled)) != len(m.pulled):
            v("C10.sequence", "duplicate", f"subscriber {m.name} received an event twice: {m.pulled}")
        if m.pulled != sorted(m.pulled):
            v("C10.sequence", "order", f"subscriber {m.name} received events out of dispatch order: {m.pulled}")
    return V


# ============================================================================ generator
def gen(rng: random.Random, tier: str, prop: str) -> dict:
    backend = "asyncio" if rng.random() < 0.6 else "trio"
    ncls = rng.choice((1, 1, 2, 3, 3))
    classes = []
    for ci in range(ncls):
        base = None
        if ci > 0 and rng.random() < 0.4:
            base = rng.randrange(ci)
        attrs = rng.sample(["a", "b", "c", "d"], rng.choice((1, 2, 2, 3)))
        cspec: dict[str, Any] = {"name": f"S{ci}", "base": base, "signals": [{"attr": a, "ev": rng.choice((0, 1, 1))} for a in attrs]}
        if rng.random() < 0.15:
            cspec["falsy"] = rng.choice(("len", "bool"))
        if rng.random() < 0.12:
            cspec["eq"] = True
        roots = [i for i, c_ in enumerate(classes) if c_.get("base") is None and not c_.get("bases")]
        if base is None and len(roots) >= 2 and rng.random() < 0.5:
            # combines two independent signal-declaring bases (often adding nothing itself)
            cspec["bases"] = rng.sample(roots, 2)
            if rng.random() < 0.5:
                cspec["signals"] = []
        classes.append(cspec)
    ninst = rng.choice((1, 2, 2, 3))
    instances = [{"id": f"i{k}", "cls": rng.randrange(ncls)} for k in range(ninst)]
    for k in range(1, ninst):
        if rng.random() < 0.12:
            # instance k is a shallow copy of an earlier one (same class)
            src = rng.randrange(k)
            instances[k]["cls"] = instances[src]["cls"]
            instances[k]["copy_of"] = instances[src]["id"]
    chans = []
    for i in instances:
        for attr in sorted(declared(classes, i["cls"])):
            chans.append([i["id"], attr])
    rng.shuffle(chans)
    access = [c for c in chans if rng.random() < 0.4]
    # keep the channel universe small so that subscribers and dispatchers meet
    hot = chans[: rng.choice((1, 2, 2, 3, 4))]
    tasks: list = []
    nsub = rng.randint(1, 4 if tier == "quick" else 5)
    for k in range(nsub):
        t: dict[str, Any] = {"kind": "sub", "name": f"sub{k}", "start": [rng.choice((0, 0, 1, 2)), rng.choice(DTS[:4])]}
        nch = rng.choice((1, 1, 2, 3))
        t["chans"] = [list(c) for c in rng.sample(hot, min(nch, len(hot)))]
        if rng.random() < 0.2 and len(chans) > len(hot):
            t["chans"].append(list(rng.choice(chans)))
            # no duplicates
            uniq = []
            for c in t["chans"]:
                if c not in uniq:
                    uniq.append(c)
            t["chans"] = uniq
        if rng.random() < 0.4:
            mod = rng.choice((2, 3))
            t["filter"] = {"mod": mod, "rem": rng.randrange(mod)}
            if rng.random() < 0.12:
                t["filter"]["boom_at"] = rng.randint(1, 4)
            if rng.random() < 0.15:
                t["filter"]["obj"] = "falsy"
        if rng.random() < 0.15:
            t["wait"] = True
            t["method"] = rng.random() < 0.5
            if rng.random() < 0.5:
                t["leave"] = {"at": rng.choice((1.0, 3.0, 8.0))}
            else:
                t["leave"] = {"at": 20.0}
        else:
            if rng.random() < 0.8:
                t["q"] = rng.choice((0, 1, 1, 2, 2, 3, 50))
            t["method"] = rng.random() < 0.5
            t["pulls"] = [[rng.choice((0, 0, 1, 2)), rng.choice((0.0, 0.0, 0.25, 0.5, 1.0, 2.0))] for _ in range(rng.randint(0, 8))]
            leave: dict[str, Any] = {"linger": [rng.choice((0, 1)), rng.choice(DTS[:5])]}
            r = rng.random()
            if r < 0.6:
                leave["at"] = rng.choice((0.5, 1.0, 2.0, 3.0, 5.0, 8.0))
            else:
                # pulling blocks forever if too few events arrive: always bound it
                leave["at"] = 20.0
            if rng.random() < 0.1:
                leave["raise"] = True
            t["leave"] = leave
        tasks.append(t)
    ndisp = rng.randint(1, 3)
    budget = rng.randint(3, 30 if tier == "thorough" else 16)
    for k in range(ndisp):
        acts: list = []
        for _ in range(max(1, budget // ndisp)):
            r = rng.random()
            if r < 0.35:
                acts.append(["p", rng.choice((0, 0, 1, 1, 2)), rng.choice((0.0, 0.0, 0.0, 0.25, 0.5, 1.0))])
            elif r < 0.92:
                acts.append(["d" if rng.random() < 0.9 else "dr", list(rng.choice(hot if rng.random() < 0.85 else chans))])
            elif r < 0.95:
                c = rng.choice(chans)
                acts.append(["dbad", list(c), rng.choice((0, 1, 2, 3, 4))])
            elif r < 0.97:
                acts.append(["jump", rng.choice((-3600.0, -1.0, 5.0, 86400.0))])
            else:
                acts.append(["ident"])
        tasks.append({"kind": "disp", "name": f"disp{k}", "acts": acts})
    macts: list = []
    for _ in range(rng.randint(0, 3) if prop == "C10" else rng.randint(1, 5)):
        r = rng.random()
        if r < 0.3:
            macts.append(rpause(rng))
        elif r < 0.55:
            macts.append(["ident"])
        elif r < 0.8:
            ci = rng.randrange(ncls)
            ub = ["unbound", ci, rng.choice(sorted(declared(classes, ci)))]
            if rng.random() < 0.5:
                ub.append(list(rng.choice(hot if rng.random() < 0.7 else chans)))
            macts.append(ub)
        elif r < 0.93:
            macts.append(["gcprobe", {"cls": rng.randrange(ncls), "rounds": rng.choice((1, 2, 3))}])
        else:
            macts.append(["ctx_owner"])
    if macts:
        tasks.append({"kind": "misc", "name": "misc", "acts": macts})
    rng.shuffle(tasks)
    # dbad must really be a wrong class
    for t in tasks:
        if t["kind"] == "disp":
            for a in t["acts"]:
                if a[0] == "dbad":
                    want = declared(classes, next(i["cls"] for i in instances if i["id"] == a[1][0]))[a[1][1]]
                    if issubclass(EVS[a[2]], EVS[want]):
                        a[2] = 0 if want != 0 else 1
    return {
        "v": 1,
        "world": NAME,
        "property": prop,
        "backend": backend,
        "sched": {"policy": rng.choice(("uniform", "coin", "prio", "fifo")), "seed": rng.getrandbits(32)},
        "classes": classes,
        "instances": instances,
        "access_order": access,
        "tasks": tasks,
    }


SIMPLEST: dict = {}
