"""Shared workload vocabulary: tagged exceptions, exception descriptions, pauses."""
from __future__ import annotations

import random
import sys
from typing import Any

from anyio import get_cancelled_exc_class

if sys.version_info < (3, 11):  # pragma: no cover
    from exceptiongroup import BaseExceptionGroup, ExceptionGroup


class SimError(Exception):
    pass


class SimLookup(LookupError):
    pass


class SimFatal(BaseException):
    pass


class SimType(TypeError):
    """An ordinary failure that happens to be a TypeError (what a wrongly called callable
    raises, too)."""


class Ambient(Exception):
    pass


EXC_CLASSES: dict[str, Any] = {
    "SimError": SimError,
    "SimLookup": SimLookup,
    "SimFatal": SimFatal,
    "SimType": SimType,
    "KI": KeyboardInterrupt,
    "SE": SystemExit,
}
ORDINARY = ("SimError", "SimLookup", "SimType")
BASE_ONLY = ("SimFatal", "KI", "SE")
DTS = (0.0, 0.25, 0.5, 1.0, 2.0, 3.0, 5.0, 8.0)


class Tagger:
    def __init__(self) -> None:
        self.n = 0
        self.by_tag: dict[str, BaseException] = {}

    def make(self, cls: str) -> BaseException:
        self.n += 1
        if cls == "group":
            a = self.make("SimError")
            b = self.make("SimLookup")
            tag = f"G{self.n}"
            e: BaseException = ExceptionGroup(f"sim group {tag}", [a, b])  # type: ignore[list-item]
        elif cls == "bgroup":
            a = self.make("SimError")
            b = self.make("SimFatal")
            tag = f"G{self.n}"
            e = BaseExceptionGroup(f"sim group {tag}", [a, b])
        else:
            tag = f"E{self.n}:{cls}"
            e = EXC_CLASSES[cls](tag)
        e.tag = tag  # type: ignore[attr-defined]
        self.by_tag[tag] = e
        return e


def is_cancel(e: BaseException) -> bool:
    return isinstance(e, get_cancelled_exc_class())


def contains_cancel(e: BaseException) -> bool:
    if isinstance(e, BaseExceptionGroup):
        return any(contains_cancel(x) for x in e.exceptions)
    return is_cancel(e)


def describe(e: BaseException | None) -> Any:
    """Structural, identity-bearing description of an exception (JSON-able)."""
    if e is None:
        return None
    if isinstance(e, BaseExceptionGroup):
        d: dict[str, Any] = {"g": [describe(x) for x in e.exceptions]}
        tag = getattr(e, "tag", None)
        if tag:
            d["tag"] = tag
        return d
    tag = getattr(e, "tag", None)
    if tag:
        return tag
    if is_cancel(e):
        return "cancel"
    return f"other:{type(e).__name__}:{str(e)[:60]}"


def leaves(d: Any) -> list:
    if d is None:
        return []
    if isinstance(d, dict):
        out: list = []
        for x in d["g"]:
            out.extend(leaves(x))
        return out
    return [d]


def group_nodes(d: Any) -> list:
    """All group nodes (dicts) in a description, outermost first."""
    out = []
    if isinstance(d, dict):
        out.append(d)
        for x in d["g"]:
            out.extend(group_nodes(x))
    return out


def is_ordinary(d: Any) -> bool:
    """Description of a non-group exception whose class is an Exception subclass."""
    return isinstance(d, str) and d.startswith("E") and d.split(":", 1)[1] in ORDINARY


def rpause(rng: random.Random, p_zero: float = 0.35) -> list:
    k = rng.choice((0, 0, 1, 1, 2, 3, 4))
    dt = 0.0 if rng.random() < p_zero else rng.choice(DTS)
    return ["p", k, dt]


def pick(rng: random.Random, weighted: dict[str, float]) -> str:
    items = list(weighted.items())
    r = rng.random() * sum(w for _, w in items)
    for k, w in items:
        r -= w
        if r <= 0:
            return k
    return items[-1][0]
