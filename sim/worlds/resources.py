"""World W2 "resources": trees of contexts, resources, factories, every lookup route.

Serves C02 (scoping: snapshot down, nothing up or sideways), C03 (one resource per key,
failed adds change nothing), C04 (factory products are per-context singletons), C18
(resource_added events) and C19 (@inject == explicit lookups in the current context).

Oracle = a reference model (per context: static table, factory table) replayed over the
recorded history; every observation (complete get_resources views of every known
context after every operation, every lookup result, every event, every teardown
callback) must be what the model says.
"""
from __future__ import annotations

import hashlib
import random
import warnings
from contextlib import AsyncExitStack
from typing import Any

import anyio
from anyio import create_task_group, move_on_after

from asphalt.core import (
    AsyncResourceError,
    Context,
    NoCurrentContext,
    ResourceConflict,
    ResourceEvent,
    ResourceNotFound,
    current_context,
)
from asphalt.core import add_resource as mod_add_resource
from asphalt.core import add_resource_factory as mod_add_resource_factory
from asphalt.core import get_resource as mod_get_resource
from asphalt.core import get_resource_nowait as mod_get_resource_nowait
from asphalt.core import get_resources as mod_get_resources

from ..core import Sim, run_sim
from . import rtypes
from .common import DTS, SimError, contains_cancel, is_cancel, pick, rpause
from .rtypes import CATALOGUE, NAMES, TYPES

import sys as _sys

if _sys.version_info < (3, 11):  # pragma: no cover
    from exceptiongroup import BaseExceptionGroup

NAME = "resources"
PROPS = ("C02", "C03", "C04", "C18", "C19", "C10")
SENTINEL = "__sentinel__"
TNAMES = ("A", "B", "C", "D", "L")


def tname(t: Any) -> str:
    for k, v in TYPES.items():
        if v is t or v == t:
            return k
    return getattr(t, "__name__", repr(t))


# =============================================================================== harness
def _exc_leaves(e: BaseException) -> list:
    if isinstance(e, BaseExceptionGroup):
        out: list = []
        for x in e.exceptions:
            out.extend(_exc_leaves(x))
        return out
    return [e]


class _Aw:
    """A non-coroutine awaitable wrapping a coroutine (what pool.acquire()-style factories
    hand out)."""

    def __init__(self, coro: Any) -> None:
        self.coro = coro

    def __await__(self):  # type: ignore[no-untyped-def]
        return self.coro.__await__()


class _FalsyCtx(Context):
    """A Context subclass that is falsy while it is empty (it has a length): still a
    perfectly good context - and a perfectly good explicit parent."""

    def __len__(self) -> int:
        return 0


class _Ballast:
    pass


class _Junk:
    pass


def _scribble(types: Any) -> None:
    """The caller re-uses its `types` list for something else right after the call (the
    library must have taken what it needs, not kept the caller's list)."""
    if isinstance(types, list):
        types[:] = [_Junk]


BAD_TDS: dict[str, Any] = {
    "three": lambda: 3,
    "zero": lambda: 0,
    "false": lambda: False,
    "zero_float": lambda: 0.0,
    "empty_str": lambda: "",
    "empty_tuple": lambda: (),
    "empty_list": lambda: [],
    "empty_dict": lambda: {},
    "str": lambda: "callback",
}


class H:
    def __init__(self, sim: Sim, plan: dict) -> None:
        self.sim = sim
        self.plan = plan
        self.ids: dict[int, str] = {}
        self.ctxs: dict[str, Context] = {}
        self.vals: dict[int, str] = {}
        self.keep: list[Any] = []
        self.nval = 0
        self.nlook = 0
        self.last_added: dict[str, tuple] = {}
        self.reqarg: dict[str, int] = {}
        self.fac_callables: dict[str, tuple] = {}
        self.obs_types = [TYPES[t] for t in TNAMES] + [TYPES["LocalT"]]
        self.obs_names = list(TNAMES) + ["LocalT"]

    def know(self, ctx: Context, cid: str) -> None:
        self.ids[id(ctx)] = cid
        self.ctxs[cid] = ctx
        self.keep.append(ctx)

    def cid(self, ctx: Any) -> Any:
        return None if ctx is None else self.ids.get(id(ctx), "?")

    def cur(self) -> Any:
        try:
            return self.cid(current_context())
        except NoCurrentContext:
            return None

    def newval(self, prefix: str, cls: Any = rtypes.Val) -> Any:
        self.nval += 1
        tag = f"{prefix}{self.nval}"
        v = cls(tag) if cls is not list else [self.nval]
        self.vals[id(v)] = tag
        self.keep.append(v)
        return v

    def vtag(self, v: Any) -> Any:
        if v is None:
            return None
        return self.vals.get(id(v), f"?{type(v).__name__}")

    # ---- full observation of every known context (non-mutating API only)
    def observe(self) -> None:
        snap: dict[str, dict] = {}
        for cid, ctx in self.ctxs.items():
            per: dict[str, dict] = {}
            for tn, t in zip(self.obs_names, self.obs_types):
                got = ctx.get_resources(t)
                if got:
                    per[tn] = {n: self.vtag(v) for n, v in got.items()}
            snap[cid] = per
        self.sim.log("obs", views=snap)

    # ---- blocks
    async def run_block(self, b: dict, exp: Any) -> None:
        sim = self.sim
        cid = b["id"]
        pmode = b.get("parent", "implicit")
        lexical = exp
        ctx_cls = _FalsyCtx if b.get("falsy_ctx") else Context
        if pmode == "ancestor" and b.get("parent_id") in self.ctxs:
            # an explicit parent that is not the current context: the snapshot comes from it,
            # while the current context stays what it was around the block
            ctx = ctx_cls(self.ctxs[b["parent_id"]])
            exp = b["parent_id"]
        elif pmode == "explicit" and exp in self.ctxs:
            ctx = ctx_cls(self.ctxs[exp])
        else:
            ctx = ctx_cls()
        self.know(ctx, cid)
        sim.log("ctx_new", ctx=cid, parent=self.cid(ctx.parent), exp=exp)
        self.observe()
        if b.get("between") and lexical is not None:
            # the (lexically current) context keeps changing between the child's construction
            # and its entry: the child's view is the snapshot taken at construction
            await self.acts(b["between"], lexical)
        try:
            # the listener is opened before the context is entered and drained after it has
            # been left, so publications made during teardown are heard too
            async with AsyncExitStack() as lstack:
                if b.get("noisy_listener"):
                    # an earlier subscriber of the same signal with a tiny queue that nobody
                    # drains: it overflows at once and must not affect anybody else
                    await lstack.enter_async_context(ctx.resource_added.stream_events(max_queue_size=b["noisy_listener"] - 1))
                if b.get("boom_listener"):
                    # somebody else's subscription with a filter that raises for every event;
                    # filters are the listener's own business (they run when *it* consumes),
                    # never the publisher's
                    def boom_filter(ev: Any) -> bool:
                        raise SimError("a listener's filter")

                    await lstack.enter_async_context(ctx.resource_added.stream_events(boom_filter))
                early_cm = None
                if b.get("early_leaver") is not None:
                    # another listener that subscribed *before* the one below and leaves in
                    # the middle of the block (overlapping, not nested, lifetimes): its
                    # going away must not take anybody else's subscription with it
                    early_cm = ctx.resource_added.stream_events()
                    await early_cm.__aenter__()
                late = b.get("late_listener")
                box: dict[str, Any] = {}
                stream: Any = None
                if late is None:
                    stream = await lstack.enter_async_context(ctx.resource_added.stream_events(max_queue_size=100000))
                else:
                    # nobody listens when the block starts; the (only) listener subscribes
                    # some time into it and is owed everything published from then on
                    sim.log("listen_late", ctx=cid)

                async def late_listen() -> None:
                    await sim.pause(late[0], late[1])
                    cm = ctx.resource_added.stream_events(max_queue_size=100000)
                    box["stream"] = await cm.__aenter__()
                    lstack.push_async_exit(cm)
                    sim.log("listen_begin", ctx=cid)

                async def run_body() -> None:
                    nonlocal early_cm
                    body = b.get("body", ())
                    if early_cm is not None:
                        k = min(b["early_leaver"], len(body))
                        await self.acts(body[:k], cid)
                        cm, early_cm = early_cm, None
                        await cm.__aexit__(None, None, None)
                        await self.acts(body[k:], cid)
                    else:
                        await self.acts(body, cid)

                try:
                    async with ctx:
                        sim.log("ctx_enter", ctx=cid)
                        for i in range(b.get("ballast", 0)):
                            # scale knob: the context carries dozens of unrelated resources
                            ctx.add_resource(_Ballast(), f"zb{cid}_{i}")
                        if late is not None:
                            async with create_task_group() as ltg:
                                ltg.start_soon(late_listen, name=f"w:late_listener_{cid}")
                                await run_body()
                                ltg.cancel_scope.cancel()
                        else:
                            await run_body()
                        sim.log("body_end", ctx=cid)
                finally:
                    if early_cm is not None:
                        with anyio.CancelScope(shield=True):
                            await early_cm.__aexit__(None, None, None)
                    if late is not None:
                        stream = box.get("stream")
                    if stream is not None:
                        try:
                            ctx.resource_added.dispatch(ResourceEvent((), SENTINEL, None, False))
                            got_sentinel = False
                            # everything dispatched so far is already queued, so this never
                            # really waits - unless delivery to this listener is broken
                            with anyio.move_on_after(5.0, shield=True):
                                async for ev in stream:
                                    if ev.resource_name == SENTINEL:
                                        got_sentinel = True
                                        break
                                    if ev.resource_name.startswith("zb"):
                                        continue  # ballast, not part of the workload
                                    sim.log(
                                        "event",
                                        ctx=cid,
                                        types=[tname(t) for t in ev.resource_types],
                                        name=ev.resource_name,
                                        desc=ev.resource_description,
                                        is_factory=ev.is_factory,
                                        source=self.cid(ev.source),
                                        topic=ev.topic,
                                    )
                            if not got_sentinel:
                                sim.log("note", what="drain_failed", exc="the listener never received the end marker dispatched on its own context")
                        except BaseException as e:  # noqa: BLE001
                            sim.log("note", what="drain_failed", exc=f"{type(e).__name__}: {e}")
                            raise
        except BaseException as e:
            sim.log("ctx_exit", ctx=cid, exc=f"{type(e).__name__}")
            self.observe()
            if contains_cancel(e) or sim.aborting:
                raise
            lv = _exc_leaves(e)
            if self.reqarg.get(cid) and all(type(x) is TypeError for x in lv) and len(lv) == self.reqarg[cid]:
                # exactly the callbacks that cannot be called without an argument failed
                sim.log("note", what="reqarg_callbacks_failed", n=len(lv))
            else:
                sim.log("note", what="block_exc", exc=f"{type(e).__name__}: {str(e)[:120]}")
        else:
            sim.log("ctx_exit", ctx=cid, exc=None)
            self.observe()

    async def acts(self, acts: Any, exp: str) -> None:
        sim = self.sim
        for a in acts:
            op = a[0]
            if op == "p":
                await sim.pause(a[1], a[2])
                continue
            if op == "child":
                await self.run_block(a[1], exp)
            elif op == "par":
                async with create_task_group() as tg:
                    for br in a[1]:
                        tg.start_soon(self.branch, br, exp, name="w:" + br["name"])
            elif op == "add":
                self.do_add(a[1], exp)
            elif op == "fac":
                self.do_fac(a[1], exp)
            elif op == "get":
                await self.do_get(a[1], exp)
            elif op == "inj":
                await self.do_inject(a[1], exp)
            elif op == "getres":
                self.do_getres(a[1], exp)
            elif op == "inj_late":
                await self.do_inject_late(a[1])
            elif op == "ctxprobe":
                await self.ctxprobe()
            self.observe()

    async def ctxprobe(self) -> None:
        """A context that has been used, left and garbage collected, then a batch of new
        contexts one of which (nearly always) re-uses its address: that one is a new context
        with a resource_added signal of its own - its events carry it as their source and
        reach its own listeners."""
        import gc
        import weakref

        sim = self.sim
        batch: list = []
        # phase 1 (no suspension points, so that the number of tries leaves no mark on the
        # schedule): whether the allocator hands the freed block out again is up to it - try
        # until it has, so that practically every run and every replay gets a re-used address
        for _attempt in range(12):
            c0 = Context()
            await c0.__aenter__()
            c0.add_resource(object(), "probe0")
            await c0.__aexit__(None, None, None)
            ref = weakref.ref(c0)
            old = id(c0)
            del c0
            if ref() is not None:
                gc.collect()
            batch = [Context() for _ in range(128)]
            batch.sort(key=lambda x: id(x) != old)
            if id(batch[0]) == old:
                break
        # phase 2: the new contexts (the one at the recycled address first)
        ok = True
        for b in batch[:4]:
            got = None
            async with b.resource_added.stream_events() as st:
                async with b:
                    b.add_resource(object(), "probe1")
                with anyio.move_on_after(0.5):
                    got = await st.__anext__()
            if got is None or got.source is not b or got.resource_name != "probe1":
                ok = False
        del batch
        sim.log("ctxprobe", ok=ok)

    async def branch(self, br: dict, exp: str) -> None:
        await self.acts(br.get("body", ()), exp)

    # ---- operations
    def target(self, spec: dict, exp: str) -> tuple[Context | None, str]:
        tgt = spec.get("target") or exp
        if tgt not in self.ctxs:
            tgt = exp
        return self.ctxs.get(tgt), tgt

    def do_add(self, spec: dict, exp: str) -> None:
        sim = self.sim
        ctx, tgt = self.target(spec, exp)
        if ctx is None:
            return
        types = [TYPES[t] if isinstance(t, str) and t in TYPES else t for t in spec.get("types", [])]
        bad = spec.get("bad")
        if types:
            value: Any = self.newval("v", rtypes.FalsyVal if spec.get("falsy") else rtypes.Val)
        else:
            cls = TYPES[spec.get("cls", "A")]
            value = self.newval("v", cls if isinstance(cls, type) else rtypes.A)
        name = spec.get("name", "default")
        if spec.get("reuse") and types and not bad:
            # the very same object once more - under the key it already holds (here or in an
            # ancestor it was inherited from) plus, usually, further types
            c_: Any = ctx
            while c_ is not None and self.cid(c_) not in self.last_added:
                c_ = c_.parent
            if c_ is not None:
                value, name, old_types = self.last_added[self.cid(c_)]
                types = list(dict.fromkeys([old_types[0]] + types))
        kwargs: dict[str, Any] = {}
        tdid = None
        if spec.get("td") == "reqarg" and not bad:
            # a callable all right, but one that cannot be called the way teardown calls it:
            # accepted now, a TypeError raised by that callback when the context is left
            def needs_arg(required: Any) -> None:
                pass

            kwargs["teardown_callback"] = needs_arg
        elif spec.get("td") == "genfunc" and not bad:
            # a generator function: callable, so accepted - calling it at teardown merely
            # creates a generator object (nothing runs, nothing fails)
            def gen_cb():  # type: ignore[no-untyped-def]
                yield

            kwargs["teardown_callback"] = gen_cb
        elif spec.get("td"):
            tdid = "td_" + self.vtag(value) + (f"_{self.nval}" if spec.get("reuse") else "")

            late = spec.get("late") or ([["add", spec["late_add"]]] if spec.get("late_add") else [])

            if any(a[0] != "add" for a in late):

                async def cb(tdid: str = tdid, tgt: str = tgt) -> None:
                    sim.log("td_run", ctx=tgt, td=tdid)
                    # lookups, injected calls, publications and new child contexts from
                    # inside the teardown of the very context
                    await self.acts([[a[0], {**a[1], "target": tgt}] if a[0] in ("add", "get") else a for a in late], tgt)

            else:

                def cb(tdid: str = tdid, tgt: str = tgt) -> None:  # type: ignore[misc]
                    sim.log("td_run", ctx=tgt, td=tdid)
                    for a in late:
                        # publish from inside the teardown of the very context
                        self.do_add({**a[1], "target": tgt}, tgt)
                        self.observe()

            kwargs["teardown_callback"] = cb
        if spec.get("desc"):
            kwargs["description"] = spec["desc"]
        if bad == "none_value":
            value = None
        elif bad == "bad_type":
            types = [5]  # type: ignore[list-item]
        elif bad == "bad_td":
            # non-callables, most of them falsy (an "if teardown_callback:" test lets them by)
            kwargs["teardown_callback"] = BAD_TDS[spec.get("bad_td_val", "three")]()
            tdid = None
        typearg: Any = types
        if len(types) == 1 and spec.get("single"):
            typearg = types[0]
        sim.log(
            "add_begin",
            ctx=tgt,
            val=self.vtag(value),
            types=[tname(t) for t in types] if types else [spec.get("cls", "A")],
            name=name,
            td=tdid,
            desc=spec.get("desc"),
            bad=bad,
        )
        if bad:
            sim.fault("invalid_call")
        try:
            via_mod = spec.get("via") == "mod" and tgt == exp
            if via_mod:
                mod_add_resource(value, name, typearg, **kwargs)
            else:
                ctx.add_resource(value, name, typearg, **kwargs)
        except ResourceConflict:
            sim.log("add_end", ctx=tgt, res="conflict")
        except Exception as e:
            sim.log("add_end", ctx=tgt, res="error", cls=type(e).__name__)
        else:
            vis = []
            for t in types:
                try:
                    vis.append(ctx.get_resources(t).get(name) is value)
                except Exception:  # noqa: BLE001
                    vis.append(None)
            sim.log("add_end", ctx=tgt, res="ok", visible=vis)
            if types and not bad:
                self.last_added[tgt] = (value, name, list(types))
            if spec.get("td") == "reqarg" and not bad:
                self.reqarg[tgt] = self.reqarg.get(tgt, 0) + 1
        _scribble(typearg)

    def make_factory(self, spec: dict) -> Any:
        sim = self.sim
        fid = spec["fid"]
        kind = spec.get("kind", "sync")
        types = [TYPES[t] for t in spec["types"] if t in TYPES]
        h = self

        def produce() -> Any:
            if spec.get("none_product"):
                return None  # a factory is free to produce None (add_resource is not)
            v = h.newval(f"g_{fid}_", rtypes.FalsyVal if spec.get("falsy") else rtypes.Val)
            return v

        if kind == "sync":

            def fac() -> Any:
                sim.log("fac_run", fid=fid, cur=h.cur())
                if spec.get("raises"):
                    sim.fault("raise_in_factory")
                    sim.log("fac_abort", fid=fid, why="raise")
                    if spec["raises"] == "notfound":
                        current_context().get_resource_nowait(rtypes.Val, "no_such_dependency")
                    raise SimError(f"factory {fid}")
                v = produce()
                sim.log("fac_done", fid=fid, val=h.vtag(v))
                return v

        else:

            async def fac() -> Any:  # type: ignore[misc]
                sim.log("fac_run", fid=fid, cur=h.cur())
                try:
                    await sim.pause(spec.get("ticks", 0), spec.get("dur", 0.0))
                    if spec.get("raises"):
                        sim.fault("raise_in_factory")
                        if spec["raises"] == "notfound":
                            await current_context().get_resource(rtypes.Val, "no_such_dependency")
                        raise SimError(f"factory {fid}")
                except BaseException as e:
                    sim.log("fac_abort", fid=fid, why="cancel" if is_cancel(e) else "raise")
                    raise
                v = produce()
                sim.log("fac_done", fid=fid, val=h.vtag(v))
                return v

        wrap = spec.get("wrap")
        if kind != "sync" and wrap == "aw":
            inner0 = fac
            fac = lambda: _Aw(inner0())  # noqa: E731  a plain callable returning an awaitable object
        elif kind != "sync" and wrap == "lambda":
            inner = fac
            fac = lambda: inner()  # noqa: E731  a plain callable returning a coroutine
        elif kind != "sync" and wrap == "callable" and not spec.get("annot"):
            inner2 = fac

            class AsyncCallable:
                async def __call__(self) -> Any:
                    return await inner2()

            fac = AsyncCallable()  # type: ignore[assignment]
        elif wrap == "unhashable" and not spec.get("annot"):
            # a callable object with value semantics (an ordinary @dataclass with __call__):
            # equality defined, hence not hashable
            inner3 = fac
            if kind == "sync":

                class _UhFactory:
                    __hash__ = None  # type: ignore[assignment]

                    def __eq__(self, other: Any) -> bool:
                        return type(other) is type(self)

                    def __call__(self) -> Any:
                        return inner3()

            else:

                class _UhFactory:  # type: ignore[no-redef]
                    __hash__ = None  # type: ignore[assignment]

                    def __eq__(self, other: Any) -> bool:
                        return type(other) is type(self)

                    async def __call__(self) -> Any:
                        return await inner3()

            fac = _UhFactory()  # type: ignore[assignment]
        if spec.get("annot"):
            # types via the return annotation (single type, Union or PEP 604 union)
            if len(types) == 1:
                fac.__annotations__["return"] = types[0]
            else:
                import functools
                import operator
                from typing import Union

                if spec.get("annot") == "pep604" and all(isinstance(t, type) for t in types):
                    fac.__annotations__["return"] = functools.reduce(operator.or_, types)
                else:
                    fac.__annotations__["return"] = Union[tuple(types)]  # type: ignore[valid-type]
        return fac

    def do_fac(self, spec: dict, exp: str) -> None:
        sim = self.sim
        ctx, tgt = self.target(spec, exp)
        if ctx is None:
            return
        fac = self.make_factory(spec)
        types = [TYPES[t] for t in spec["types"] if t in TYPES]
        name = spec.get("name", "default")
        bad = spec.get("bad")
        if spec.get("same_as"):
            # the very callable of an earlier (successful) registration in this context,
            # for the same name and at least the same types: every pair is taken
            prev = self.fac_callables.get((tgt, spec["same_as"]))
            if prev is None:
                return
            fac, name, ptypes = prev
            spec = {**spec, "name": name, "types": list(dict.fromkeys(list(ptypes) + list(spec["types"])))}
            spec.pop("annot", None)
            types = [TYPES[t] for t in spec["types"] if t in TYPES]
        kwargs: dict[str, Any] = {}
        if not spec.get("annot"):
            kwargs["types"] = types if not (len(types) == 1 and spec.get("single")) else types[0]
        if spec.get("desc"):
            kwargs["description"] = spec["desc"]
        if bad == "none_in_types":
            kwargs["types"] = [*types, None]
        elif bad == "no_types":
            kwargs.pop("types", None)
            fac.__annotations__.pop("return", None)
        sim.log(
            "fac_begin",
            ctx=tgt,
            fid=spec["fid"],
            types=list(spec["types"]),
            name=name,
            kind=spec.get("kind", "sync"),
            desc=spec.get("desc"),
            bad=bad,
            raises=spec.get("raises"),
        )
        if bad:
            sim.fault("invalid_call")
        try:
            if spec.get("via") == "mod" and tgt == exp:
                mod_add_resource_factory(fac, name, **kwargs)
            else:
                ctx.add_resource_factory(fac, name, **kwargs)
        except ResourceConflict:
            sim.log("fac_end", ctx=tgt, res="conflict")
        except Exception as e:
            sim.log("fac_end", ctx=tgt, res="error", cls=type(e).__name__)
        else:
            sim.log("fac_end", ctx=tgt, res="ok")
            if not bad and not spec.get("same_as"):
                self.fac_callables[(tgt, spec["fid"])] = (fac, name, list(spec["types"]))
        _scribble(kwargs.get("types"))
        # probe the keys the call asked for without generating anything the model does not
        # expect: the oracle decides from the model whether each probe should have missed
        for t in spec["types"]:
            if t in TYPES:
                got = ctx.get_resources(TYPES[t])
                sim.log("fac_probe", ctx=tgt, type=t, name=name, present=name in got)

    async def do_get(self, spec: dict, exp: str) -> None:
        sim = self.sim
        ctx, tgt = self.target(spec, exp)
        if ctx is None:
            return
        t = TYPES[spec["type"]]
        name = spec.get("name", "default")
        api = spec.get("api", "get")
        optional = bool(spec.get("optional"))
        if api.startswith("mod_") and tgt != exp:
            api = api[4:]
        self.nlook += 1
        lid = self.nlook
        sim.log("get_begin", lid=lid, ctx=tgt, type=spec["type"], name=name, api=api, optional=optional)
        kw: dict[str, Any] = {"optional": True} if optional else {}
        timeout = spec.get("timeout")
        res: Any = None
        out = "ok"
        try:
            if api == "get":
                if timeout is not None:
                    with move_on_after(timeout) as scope:
                        res = await ctx.get_resource(t, name, **kw)
                    if scope.cancelled_caught:
                        out = "timeout"
                        sim.fault("lookup_cancelled")
                else:
                    res = await ctx.get_resource(t, name, **kw)
            elif api == "nowait":
                res = ctx.get_resource_nowait(t, name, **kw)
            elif api == "mod_get":
                res = await mod_get_resource(t, name, **kw)
            elif api == "mod_nowait":
                res = mod_get_resource_nowait(t, name, **kw)
        except ResourceNotFound:
            out = "notfound"
        except AsyncResourceError:
            out = "asyncerror"
        except SimError:
            out = "factory_raised"
        except BaseException as e:
            if contains_cancel(e):
                sim.log("get_end", lid=lid, ctx=tgt, out="cancelled", val=None)
                raise
            out = f"error:{type(e).__name__}"
        sim.log("get_end", lid=lid, ctx=tgt, out=out, val=self.vtag(res))

    def do_getres(self, spec: dict, exp: str) -> None:
        ctx, tgt = self.target(spec, exp)
        if ctx is None:
            return
        t = TYPES[spec["type"]]
        if spec.get("via") == "mod" and tgt == exp:
            got = mod_get_resources(t)
        else:
            got = ctx.get_resources(t)
        self.sim.log("getres", ctx=tgt, type=spec["type"], view={n: self.vtag(v) for n, v in got.items()})

    async def do_inject_late(self, spec: dict) -> None:
        """A string forward reference that cannot be resolved at the first call (the class
        does not exist yet) and can at the second: resolution must be retried."""
        sim = self.sim
        ns: dict[str, Any] = {}
        is_async = spec.get("async", True)
        src = (
            "from __future__ import annotations\n"
            "from asphalt.core import inject, resource\n"
            "@inject\n"
            + ("async " if is_async else "")
            + "def late(x, *, r: LateT = resource('late')):\n    return (x, r)\n"
        )
        exec(src, ns)
        fn = ns["late"]
        async with Context() as lc:
            first = "ok"
            try:
                (await fn(1)) if is_async else fn(1)
            except NameError:
                first = "NameError"
            except BaseException as e:  # noqa: BLE001
                if contains_cancel(e):
                    raise
                first = type(e).__name__
            late_t = type("LateT", (), {})
            ns["LateT"] = late_t
            obj = late_t()
            lc.add_resource(obj, "late")
            second = "ok"
            same = None
            try:
                ret = (await fn(2)) if is_async else fn(2)
                same = ret[0] == 2 and ret[1] is obj
            except BaseException as e:  # noqa: BLE001
                if contains_cancel(e):
                    raise
                second = f"{type(e).__name__}: {str(e)[:60]}"
            sim.log("inj_late", first=first, second=second, same=same, is_async=is_async)

    async def do_inject(self, spec: dict, exp: str) -> None:
        sim = self.sim
        fn, is_async, deps, shape = CATALOGUE[spec["fn"]]
        self.nlook += 1
        lid = self.nlook
        cur = exp  # @inject must resolve in the context current at call time = the lexical one
        x = object()
        k = object()
        cscope = bool(spec.get("cscope")) and is_async
        sim.log(
            "inj_begin",
            lid=lid,
            ctx=cur,
            fn=spec["fn"],
            deps=[[d[1], d[2], d[3]] for d in deps],
            is_async=is_async,
            cscope=cscope,
        )
        if cscope:
            # the call is made under an already cancelled scope (an injected clean-up
            # function called from a `finally:`): looking up what is already there does not
            # suspend, so the function body is reached like that of the undecorated function
            with anyio.CancelScope() as sc:
                sc.cancel()
                await self._do_inject_call(spec, lid, cur, fn, is_async, shape, x, k)
            return
        await self._do_inject_call(spec, lid, cur, fn, is_async, shape, x, k)

    async def _do_inject_call(self, spec: dict, lid: int, cur: str, fn: Any, is_async: bool, shape: str, x: Any, k: Any) -> None:
        sim = self.sim
        rtypes.CALL.set(lid)
        out = "ok"
        ret: Any = None
        try:
            if shape == "three":
                ret = await fn() if is_async else fn()
            elif spec.get("posx"):
                ret = (await fn(x, k=k)) if is_async else fn(x, k=k)
            else:
                ret = (await fn(x=x, k=k)) if is_async and shape != "method" else (
                    (await fn(x, k=k)) if is_async else fn(x, k=k)
                )
            if shape == "ctd":
                ret = rtypes.CTD_RET.pop(lid, None)
        except ResourceNotFound:
            out = "notfound"
        except AsyncResourceError:
            out = "asyncerror"
        except SimError:
            out = "factory_raised"
        except BaseException as e:
            if contains_cancel(e):
                sim.log("inj_end", lid=lid, ctx=cur, out="cancelled", vals=None, body_ran=False, passthrough=None)
                raise
            out = f"error:{type(e).__name__}:{str(e)[:60]}"
        body_ran = lid in rtypes.BODY_RAN
        rtypes.BODY_RAN.discard(lid)
        vals = None
        passthrough = None
        if isinstance(ret, dict):
            vals = [self.vtag(v) for v in ret["r"]]
            if shape == "three":
                passthrough = True
            else:
                passthrough = ret["x"] is x and ret["k"] is k and ret.get("self_ok", True)
        sim.log("inj_end", lid=lid, ctx=cur, out=out, vals=vals, body_ran=body_ran, passthrough=passthrough)


async def _straggler(sim: Sim, spec: dict) -> None:
    """A service task of a *root* context that is still winding down (shielded) when the
    context's teardown callbacks have all been processed - the host was cancelled, so the
    finalizer's wait for the task was cut short - publishes one more resource while the
    context is still closing.  Whatever becomes of that call, the listener of the context
    sees exactly one event for it if it returned and none if it raised (W15_C18_1)."""
    outcome: list = []
    released = anyio.Event()
    ctx = Context()

    def td_cb() -> None:
        sim.log("straggler_td")

    async def service() -> None:
        try:
            await anyio.sleep_forever()
        finally:
            with anyio.CancelScope(shield=True):
                await released.wait()
                await sim.pause(spec.get("k", 0), spec.get("dt", 0.0))
            try:
                if spec.get("with_td", True):
                    ctx.add_resource(_Ballast(), "straggler", teardown_callback=td_cb)
                else:
                    ctx.add_resource(_Ballast(), "straggler")
            except Exception as e:  # noqa: BLE001
                outcome.append(f"{type(e).__name__}: {str(e)[:80]}")
            else:
                outcome.append("ok")

    n_events = 0
    async with ctx.resource_added.stream_events() as stream:
        with anyio.CancelScope() as scope:
            try:
                async with ctx:
                    ctx.add_teardown_callback(released.set)
                    await ctx.start_service_task(service, "w:straggler", teardown_action=None)
                    await sim.pause(spec.get("k0", 0), 0.0)
                    scope.cancel()
                    await anyio.sleep(0)
            except BaseException as e:  # noqa: BLE001
                if not contains_cancel(e):
                    raise
        ctx.resource_added.dispatch(ResourceEvent((), SENTINEL, None, False))
        with anyio.move_on_after(5.0, shield=True):
            async for ev in stream:
                if ev.resource_name == SENTINEL:
                    break
                if ev.resource_name == "straggler":
                    n_events += 1
    sim.probe("straggler:" + ("none" if not outcome else "ok" if outcome[0] == "ok" else "raised") + f":events={n_events}")
    sim.log("straggler", outcome=outcome[0] if outcome else None, events=n_events, with_td=bool(spec.get("with_td", True)))


def make_main(plan: dict):
    async def main(sim: Sim) -> None:
        h = H(sim, plan)
        sim.user["h"] = h
        try:
            with warnings.catch_warnings(record=True) as wlist:
                warnings.simplefilter("always")
                await h.run_block(plan["root"], None)
                if plan.get("straggler"):
                    await _straggler(sim, plan["straggler"])
            for w in wlist:
                if "never awaited" in str(w.message):
                    sim.log("warning", msg=str(w.message)[:80])
        except BaseException as e:
            sim.log("escaped", exc=f"{type(e).__name__}: {str(e)[:100]}")
            if sim.aborting and is_cancel(e):
                raise

    return main


def execute(plan: dict, *, want_digest: bool = False, want_trace: bool = False) -> dict:
    sim = Sim(plan)
    run_sim(sim, make_main(plan))
    viol = oracle(sim, plan)
    res = {
        "violations": viol,
        "faults": dict(sim.faults),
        "probes": dict(sim.probes),
        "steps": sim.step,
        "vtime": sim.end_time,
        "sig": sim.signature(),
        "deadlock": sim.deadlock,
        "crashed": sim.crashed,
        "step_limit": sim.step_limit,
        "nontrivial": len({r[3] for r in sim.trace}) >= 2 or sum(sim.faults.values()) > 0,
        "final": _final(sim),
    }
    if want_digest:
        res["digest"] = sim.digest()
    if want_trace:
        res["trace"] = sim.dump_trace()
    return res


def _final(sim: Sim) -> str:
    h = hashlib.blake2b(digest_size=8)
    last = None
    for r in sim.trace:
        if r[4] == "obs":
            last = r
    h.update(repr(sorted((last[5]["views"] if last else {}).items())).encode())
    return h.hexdigest()


# =============================================================================== oracle
class MCtx:
    __slots__ = ("cid", "static", "factories", "events", "tds", "exited", "parent")

    def __init__(self, cid: str) -> None:
        self.cid = cid
        self.static: dict[tuple, dict] = {}
        self.factories: dict[tuple, dict] = {}
        self.events: list[dict] = []
        self.tds: list[str] = []
        self.exited = False
        self.parent: Any = None

    def view(self) -> dict:
        out: dict[str, dict] = {}
        for (t, n), e in self.static.items():
            out.setdefault(t, {})[n] = e["val"]
        return out


def oracle(sim: Sim, plan: dict) -> list[dict]:
    V: list[dict] = []
    seen: set = set()

    def v(rule: str, key: str, msg: str) -> None:
        if (rule, key, msg) in seen:
            return
        seen.add((rule, key, msg))
        V.append({"rule": rule, "key": key, "msg": msg})

    if sim.step_limit:
        return V
    if sim.deadlock:
        for p in PROPS:
            v(f"{p}.deadlock", "deadlock", "run deadlocked")
        return V

    M: dict[str, MCtx] = {}
    pend_add: dict[tuple, dict] = {}  # (task) -> add_begin
    pend_fac: dict[str, dict] = {}
    lookups: dict[int, dict] = {}  # lid -> state
    task_lookup: dict[str, list[int]] = {}  # task -> stack of lids (for attributing factory runs)
    inflight: dict[tuple, dict] = {}  # (fid, ctx) -> {"lid":..}
    fac_specs: dict[str, dict] = {}  # fid -> spec as registered (types, name, kind, desc)
    gen_done: dict[tuple, int] = {}  # (fid, ctx) -> successful generations
    handed: dict[tuple, Any] = {}  # (ctx, type, name) -> first value a lookup returned
    task_fac: dict[str, list] = {}  # task -> stack of (fid, ctx, lid)
    obs_events: dict[str, list] = {}
    late_from: dict[str, Any] = {}
    td_runs: dict[str, list] = {}
    td_stack: dict[str, list] = {}
    td_popped: dict[str, set] = {}
    muts: dict[str, int] = {}  # ctx -> number of model mutations so far

    def mutated(cid: str) -> None:
        muts[cid] = muts.get(cid, 0) + 1

    def expect_path(m: MCtx, t: str, n: str) -> tuple:
        key = (t, n)
        if key in m.static:
            return ("hit", m.static[key]["val"])
        if key in m.factories:
            return ("gen", m.factories[key])
        return ("miss", None)

    def note_handed(rule_ctx: str, t: str, n: str, val: Any, how: str) -> None:
        if val is None:
            return
        k = (rule_ctx, t, n)
        if k in handed and handed[k] != val:
            v(
                "C03.stable",
                "changed",
                f"({t},{n!r}) in {rule_ctx} resolved to {handed[k]} earlier and to {val} now ({how})",
            )
        handed.setdefault(k, val)

    for r in sim.trace:
        seq, step, _t, task, kind, d = r
        if kind == "ctx_new":
            m = MCtx(d["ctx"])
            M[d["ctx"]] = m
            if d["parent"] != d["exp"]:
                v("C02.parent", "parent", f"context {d['ctx']} got parent {d['parent']}, expected {d['exp']}")
            par = M.get(d["exp"]) if d["exp"] else None
            m.parent = d["exp"]
            if par is not None:
                m.static = {k: e for k, e in par.static.items() if not e["gen"]}
                m.factories = dict(par.factories)
        elif kind == "ctx_exit":
            if d["ctx"] in M:
                M[d["ctx"]].exited = True
        elif kind == "add_begin":
            pend_add[task] = d
        elif kind == "add_end":
            b = pend_add.pop(task, None)
            if b is None:
                continue
            m = M[b["ctx"]]
            keys = [(t, b["name"]) for t in b["types"]]
            conflict = any(k in m.static for k in keys)
            res = d["res"]
            bad = b.get("bad")
            invalid = bool(bad) or not _valid_name(b["name"])
            if res == "ok":
                if conflict:
                    v(
                        "C03.conflict",
                        "add_accepted",
                        f"add_resource({b['types']},{b['name']!r}) on {b['ctx']} succeeded although "
                        f"{[k for k in keys if k in m.static]} is taken",
                    )
                if invalid:
                    v("C03.invalid", f"accepted:{bad or 'name'}", f"invalid add_resource ({bad or 'bad name'}) accepted")
                if d.get("visible") is not None and not all(x is True for x in d["visible"]) and not invalid:
                    v("C02.own", "added_not_visible", f"add_resource({b['types']},{b['name']!r}) on {b['ctx']} returned normally but the object is not visible there under all of these types ({d['visible']})")
                    v("C03.atomic", "accepted_partially", f"add_resource({b['types']},{b['name']!r}) on {b['ctx']} returned normally but registered only part of its types ({d['visible']})")
                entry = {"val": b["val"], "types": tuple(b["types"]), "name": b["name"], "gen": False}
                for k in keys:
                    m.static[k] = entry
                if b.get("td"):
                    m.tds.append(b["td"])
                m.events.append({"types": list(b["types"]), "name": b["name"], "desc": b.get("desc"), "is_factory": False})
                mutated(b["ctx"])
            else:
                if res == "conflict" and not conflict:
                    v("C03.conflict", "spurious", f"add_resource({b['types']},{b['name']!r}) on {b['ctx']} raised ResourceConflict but no key is taken")
                if res == "error" and not invalid and not conflict:
                    v("C03.conflict", "spurious_error", f"valid add_resource({b['types']},{b['name']!r}) on {b['ctx']} raised {d.get('cls')}")
                # failure atomicity is checked by the next observation, td log and event log
        elif kind == "fac_begin":
            pend_fac[task] = d
        elif kind == "fac_end":
            b = pend_fac.pop(task, None)
            if b is None:
                continue
            m = M[b["ctx"]]
            keys = [(t, b["name"]) for t in b["types"]]
            conflict = any(k in m.factories for k in keys)
            bad = b.get("bad")
            invalid = bool(bad) or not _valid_name(b["name"])
            if d["res"] == "ok":
                if conflict:
                    v("C03.conflict", "fac_accepted", f"second factory for {[k for k in keys if k in m.factories]} accepted on {b['ctx']}")
                if invalid:
                    v("C03.invalid", f"accepted:{bad or 'name'}", f"invalid add_resource_factory ({bad or 'bad name'}) accepted")
                f = {"fid": b["fid"], "types": tuple(b["types"]), "name": b["name"], "kind": b["kind"], "desc": b.get("desc"), "raises": b.get("raises")}
                fac_specs[b["fid"]] = f
                for k in keys:
                    m.factories[k] = f
                m.events.append({"types": list(b["types"]), "name": b["name"], "desc": b.get("desc"), "is_factory": True})
                mutated(b["ctx"])
            else:
                if d["res"] == "conflict" and not conflict:
                    v("C03.conflict", "spurious", f"add_resource_factory({b['types']},{b['name']!r}) on {b['ctx']} raised ResourceConflict but no key is taken")
                if d["res"] == "error" and not invalid and not conflict:
                    v("C03.conflict", "spurious_error", f"valid add_resource_factory on {b['ctx']} raised {d.get('cls')}")
        elif kind == "fac_probe":
            m = M[d["ctx"]]
            want = (d["type"], d["name"]) in m.static
            if d["present"] != want:
                v("C03.atomic", "fac_probe", f"after add_resource_factory on {d['ctx']}: ({d['type']},{d['name']!r}) present={d['present']}, model says {want}")
        elif kind == "obs":
            for cid, per in d["views"].items():
                m = M.get(cid)
                if m is None:
                    continue
                want = m.view()
                if per != want:
                    # classify
                    key = "view"
                    rule = "C02.view"
                    par = M.get(m.parent) if m.parent else None
                    extra = {(t, n, x) for t, nn in per.items() for n, x in nn.items()} - {
                        (t, n, x) for t, nn in want.items() for n, x in nn.items()
                    }
                    missing = {(t, n, x) for t, nn in want.items() for n, x in nn.items()} - {
                        (t, n, x) for t, nn in per.items() for n, x in nn.items()
                    }
                    v(
                        rule,
                        key,
                        f"context {cid} shows {sorted(extra)} unexpectedly and lacks {sorted(missing)} "
                        f"(observed {per}, model {want})",
                    )
                    # mirror into C03/C04 rules where they are the cause
                    if any(str(x).startswith("g_") for _, _, x in extra):
                        v("C04.scope", "generated_leak", f"generated resource visible in {cid} where the model has none: {sorted(extra)}")
                    if pend_add or True:
                        v("C03.atomic", "view", f"context {cid} view differs from the model after an operation: +{sorted(extra)} -{sorted(missing)}")
        elif kind == "getres":
            m = M[d["ctx"]]
            want = m.view().get(d["type"], {})
            if d["view"] != want:
                v("C02.view", "getres", f"get_resources({d['type']}) on {d['ctx']} returned {d['view']}, model {want}")
        elif kind == "get_begin":
            m = M[d["ctx"]]
            path = expect_path(m, d["type"], d["name"])
            lookups[d["lid"]] = {"b": d, "path": path, "step": step, "task": task, "runs": 0, "ok_runs": 0}
            task_lookup.setdefault(task, []).append(d["lid"])
        elif kind == "inj_begin":
            lookups[d["lid"]] = {"b": d, "inj": True, "step": step, "task": task, "runs": 0, "ok_runs": 0, "idx": 0, "mut0": muts.get(d["ctx"], 0)}
            m0 = M.get(d["ctx"])
            # (is everything the call needs already there when it begins?)
            lookups[d["lid"]]["all_static0"] = m0 is not None and all(
                (t, n) in m0.static or (optional and (t, n) not in m0.factories) for t, n, optional in d["deps"]
            )
            task_lookup.setdefault(task, []).append(d["lid"])
        elif kind == "fac_run":
            st = task_lookup.get(task) or []
            if not st:
                v("C04.once", "orphan_run", f"factory {d['fid']} ran outside any lookup")
                continue
            L = lookups[st[-1]]
            ctx_id = L["b"]["ctx"]
            m = M[ctx_id]
            f = fac_specs.get(d["fid"])
            L["runs"] += 1
            if L.get("inj"):
                seen_f = L.setdefault("fids", [])
                if d["fid"] in seen_f:
                    v("C19.equiv", "factory_called_twice", f"one call of an injected function invoked factory {d['fid']} twice in {ctx_id}: the explicit lookup it stands for invokes it once")
                seen_f.append(d["fid"])
            if f is None:
                continue
            # which key is being generated? any of the factory's keys still free/not
            busy = inflight.get((d["fid"], ctx_id))
            sim.probe("factory_invoked")
            if busy is not None:
                v("C04.once", "race", f"factory {d['fid']} invoked for {ctx_id} while a generation for the same context is in flight")
            if gen_done.get((d["fid"], ctx_id)):
                v("C04.once", "again", f"factory {d['fid']} invoked again for {ctx_id} after it had generated a resource there")
            inflight[(d["fid"], ctx_id)] = {"lid": st[-1]}
            task_fac.setdefault(task, []).append((d["fid"], ctx_id, st[-1]))
        elif kind in ("fac_done", "fac_abort"):
            stf = task_fac.get(task) or []
            if not stf:
                continue
            fid, ctx_id, lid = stf.pop()
            inflight.pop((fid, ctx_id), None)
            L = lookups[lid]
            f = fac_specs.get(fid)
            if kind == "fac_done" and f is not None:
                api_sync = (not L.get("inj") and L["b"]["api"] in ("nowait", "mod_nowait")) or (
                    L.get("inj") and not L["b"]["is_async"]
                )
                if f["kind"] == "async" and api_sync:
                    continue  # cannot happen: body of an async factory never runs under the sync API
                m = M[ctx_id]
                gen_done[(fid, ctx_id)] = gen_done.get((fid, ctx_id), 0) + 1
                L["ok_runs"] += 1
                entry = {"val": d["val"], "types": f["types"], "name": f["name"], "gen": True}
                for t in f["types"]:
                    m.static.setdefault((t, f["name"]), entry)
                if gen_done[(fid, ctx_id)] == 1:
                    # only the first generation of a factory in a context is a publication
                    m.events.append({"types": list(f["types"]), "name": f["name"], "desc": f.get("desc"), "is_factory": False})
                mutated(ctx_id)
                L["own_muts"] = L.get("own_muts", 0) + 1
        elif kind == "get_end":
            L = lookups.get(d["lid"])
            if L is None:
                continue
            st = task_lookup.get(task) or []
            if st and st[-1] == d["lid"]:
                st.pop()
            b = L["b"]
            m = M[b["ctx"]]
            path = L["path"]
            out, val = d["out"], d["val"]
            sync_api = b["api"] in ("nowait", "mod_nowait")
            where = f"{b['api']}({b['type']},{b['name']!r}) on {b['ctx']}"
            if out in ("cancelled", "timeout"):
                continue
            if path[0] == "gen" and not L["runs"] and out == "ok":
                sim.probe("lookup_waited_for_inflight_generation")
            if path[0] == "hit":
                if out != "ok" or val != path[1]:
                    v("C02.lookup", "hit", f"{where}: expected {path[1]}, got {out}/{val}")
                if step != L["step"]:
                    v("C06.nowait", "hit_waited", f"{where}: a plain hit took scheduler steps")
                if L["runs"]:
                    v("C04.once", "hit_generated", f"{where}: factory invoked although the resource was present")
                note_handed(b["ctx"], b["type"], b["name"], val, where)
            elif path[0] == "miss":
                want = "ok" if b["optional"] else "notfound"
                if out != want or val is not None:
                    v("C02.lookup", "miss", f"{where}: model has nothing visible, got {out}/{val}")
                    if val is not None and str(val).startswith("g_"):
                        v("C04.scope", "miss_generated", f"{where}: generated {val} although no factory is visible there")
            else:
                f = path[1]
                if f["kind"] == "async" and sync_api:
                    if out != "asyncerror":
                        v("C04.asyncerror", "not_raised", f"{where}: async factory through the sync API gave {out}/{val}")
                    if L["ok_runs"]:
                        v("C04.asyncerror", "ran", f"{where}: async factory body ran under the sync API")
                else:
                    cur = m.static.get((b["type"], b["name"]))
                    if out == "factory_raised" or (out == "notfound" and f.get("raises") == "notfound" and L["runs"]):
                        if cur is not None and L["ok_runs"]:
                            v("C04.failed_gen", "registered", f"{where}: raising factory left a resource behind")
                    elif out == "ok":
                        if cur is None or val != cur["val"]:
                            v("C02.lookup", "generated_differs", f"{where}: returned {val}, but the context holds {cur['val'] if cur else None} under that key (lookup paths disagree)")
                            v(
                                "C04.same",
                                "product",
                                f"{where}: returned {val}, model holds {cur['val'] if cur else None} after generation",
                            )
                        note_handed(b["ctx"], b["type"], b["name"], val, where)
                    else:
                        v("C04.same", "outcome", f"{where}: factory visible, got {out}/{val}")
        elif kind == "inj_end":
            L = lookups.get(d["lid"])
            if L is None:
                continue
            st = task_lookup.get(task) or []
            if st and st[-1] == d["lid"]:
                st.pop()
            b = L["b"]
            if d["out"] == "cancelled" and b.get("cscope") and b["ctx"] in M and not L["runs"]:
                if L.get("all_static0"):
                    v("C19.equiv", "cancelled_before_body", f"@inject {b['fn']} in {b['ctx']} called under a cancelled scope: every dependency is already there (no lookup suspends), yet the call was cancelled before the function body ran - the undecorated function called with the looked-up values runs its body")
            if d["out"] == "cancelled" or b["ctx"] is None:
                continue
            m = M[b["ctx"]]
            # replay the dependencies in order against the model *as it is now* (generation
            # by this very call has already been applied by fac_done)
            want_vals: list = []
            want_out = "ok"
            for t, n, optional in b["deps"]:
                cur = m.static.get((t, n))
                if cur is not None:
                    want_vals.append(cur["val"])
                    continue
                f = m.factories.get((t, n))
                if f is not None:
                    if f["kind"] == "async" and not b["is_async"]:
                        want_out = "asyncerror"
                    else:
                        want_out = "factory_raised_or_cancelled"
                    break
                if optional:
                    want_vals.append(None)
                else:
                    want_out = "notfound"
                    break
            where = f"@inject {b['fn']} in {b['ctx']}"
            interfered = muts.get(b["ctx"], 0) - L["mut0"] - L.get("own_muts", 0) > 0
            if interfered:
                sim.probe("inject_interfered_relaxed")
                # other tasks changed this context while the call was suspended in a
                # factory: only the per-key stability rule (C03.stable) applies
                if d["out"] == "ok" and d["vals"] is not None:
                    for (t, n, _o), val in zip(b["deps"], d["vals"]):
                        note_handed(b["ctx"], t, n, val, where)
                continue
            if want_out == "ok":
                if d["out"] != "ok" or d["vals"] != want_vals:
                    v("C19.equiv", "values", f"{where}: injected {d['vals']} ({d['out']}), explicit lookups give {want_vals}")
                    v("C02.lookup", "inject_disagrees", f"{where}: injected parameters {d['vals']} ({d['out']}) disagree with the explicit lookups {want_vals}")
                    v("C04.same", "inject_disagrees", f"{where}: injected parameters {d['vals']} ({d['out']}) disagree with the explicit lookups {want_vals}")
                if d["passthrough"] is not True:
                    v("C19.passthrough", "args", f"{where}: ordinary arguments did not pass through unchanged")
                for (t, n, _o), val in zip(b["deps"], want_vals):
                    note_handed(b["ctx"], t, n, val, where)
            elif want_out == "factory_raised_or_cancelled":
                if d["out"] not in ("factory_raised",) and not (d["out"] == "notfound" and L["runs"]):
                    v("C19.equiv", "factory", f"{where}: expected the factory's failure, got {d['out']}/{d['vals']}")
                    v("C02.lookup", "inject_disagrees", f"{where}: the explicit lookup fails with the factory's error, the injected call gave {d['out']}/{d['vals']}")
                    v("C04.same", "inject_disagrees", f"{where}: the explicit lookup fails with the factory's error, the injected call gave {d['out']}/{d['vals']}")
                if d["body_ran"]:
                    v("C19.before_body", "factory", f"{where}: function body ran although a dependency's factory failed")
            else:
                if d["out"] != want_out:
                    v("C19.equiv", want_out, f"{where}: expected {want_out}, got {d['out']}/{d['vals']}")
                    v("C02.lookup", "inject_disagrees", f"{where}: the explicit lookup gives {want_out}, the injected call gave {d['out']}/{d['vals']}")
                    v("C04.same", "inject_disagrees", f"{where}: the explicit lookup gives {want_out}, the injected call gave {d['out']}/{d['vals']}")
                if d["body_ran"]:
                    v("C19.before_body", want_out, f"{where}: function body ran although a dependency lookup failed")
        elif kind == "ctxprobe":
            if not d["ok"]:
                v("C18.events", "source@recycled_context", f"a new context allocated after another one had been garbage collected did not announce its publication on a signal of its own ({d})")
        elif kind == "straggler":
            if d["outcome"] is None:
                v("C18.events", "straggler_never_ran", f"the winding-down service task never got to publish ({d})")
            elif d["outcome"] != "ok" and d["events"]:
                v("C18.events", "failed_call_announced", f"add_resource() by a task outliving the teardown callbacks of its closing context failed ({d['outcome']}) but was announced {d['events']} time(s)")
            elif d["outcome"] == "ok" and d["events"] != 1:
                v("C18.events", "straggler_publication", f"add_resource() by a task outliving the teardown callbacks of its closing context succeeded but was announced {d['events']} times")
        elif kind == "inj_late":
            if d["second"] != "ok" or d["same"] is not True:
                v("C19.forward_ref", "retry", f"@inject with a forward reference that became resolvable only after a failed first call ({d['first']}): second call gave {d['second']} (same object: {d['same']})")
        elif kind == "event":
            obs_events.setdefault(d["ctx"], []).append(d)
        elif kind == "listen_late":
            late_from[d["ctx"]] = None
        elif kind == "listen_begin":
            if d["ctx"] in M:
                late_from[d["ctx"]] = len(M[d["ctx"]].events)
        elif kind == "td_run":
            td_runs.setdefault(d["ctx"], []).append(d["td"])
            m = M.get(d["ctx"])
            if m is not None:
                # teardown callbacks form a stack; ones registered during teardown go on top
                st = td_stack.setdefault(d["ctx"], [])
                pending = [t for t in m.tds if t not in td_popped.setdefault(d["ctx"], set())]
                if d["td"] not in m.tds:
                    v("C03.atomic", "td_of_failed_add", f"context {d['ctx']}: teardown callback {d['td']} of an add that failed was run")
                elif not pending or pending[-1] != d["td"]:
                    v("C03.teardown", "td_order", f"context {d['ctx']}: teardown callback {d['td']} ran, the most recently registered pending one is {pending[-1] if pending else None}")
                td_popped.setdefault(d["ctx"], set()).add(d["td"])
        elif kind == "warning":
            v("C04.asyncerror", "never_awaited", f"coroutine never awaited warning: {d['msg']}")
        elif kind == "note" and d.get("what") == "drain_failed":
            v("C18.listener", "drain", f"listener drain failed: {d.get('exc')}")
        elif kind == "note" and d.get("what") == "block_exc":
            for p in PROPS:
                v(f"{p}.unexpected_exception", "block", f"a context block raised unexpectedly: {d.get('exc')}")
        elif kind == "escaped":
            for p in PROPS:
                v(f"{p}.unexpected_exception", "escaped", f"exception escaped the workload: {d.get('exc')}")

    # ---- per-context end-of-run checks
    for cid, m in M.items():
        if not m.exited:
            continue
        got = [
            {"types": e["types"], "name": e["name"], "desc": e["desc"], "is_factory": e["is_factory"]}
            for e in obs_events.get(cid, [])
        ]
        want = m.events
        if cid in late_from:
            # (None: the block ended before its only listener had subscribed)
            # a listener that subscribed in the middle of the block: everything published
            # from then on - including a generation that was under way at that moment
            want = m.events[late_from[cid] :] if late_from[cid] is not None else got
        if got != want:
            key = "sequence"
            if len(got) > len(want):
                key = "extra"
            elif len(got) < len(want):
                key = "missing"
            if cid in late_from:
                key += "@late_listener"
            v("C18.events", key, f"context {cid}: events {got} != expected {want}")
        for e in obs_events.get(cid, []):
            if e["source"] != cid or e["topic"] != "resource_added":
                v("C18.events", "source", f"event on {cid} has source {e['source']} topic {e['topic']}")
                v("C10.stamp", "resource_event", f"a resource_added event received by a listener of {cid} is stamped with source {e['source']} topic {e['topic']} by the time it is consumed")
        got_td = td_runs.get(cid, [])
        never = [t for t in m.tds if t not in got_td]
        twice = sorted({t for t in got_td if got_td.count(t) > 1})
        if never or twice:
            v("C03.teardown", "td_count", f"context {cid}: teardown callbacks never run {never}, run twice {twice}")
    return V


def _valid_name(n: str) -> bool:
    import re

    return bool(re.fullmatch(r"\w+", n))


# ============================================================================ generator
BAD_NAMES = ("", "with space", "x.y", "x:y", "a\n", "default\n")


class G:
    def __init__(self, rng: random.Random, tier: str, prop: str) -> None:
        self.rng = rng
        self.tier = tier
        self.prop = prop
        self.nctx = 0
        self.nfac = 0
        self.ntask = 0
        self.max_ctx = 8 if tier == "quick" else 12
        self.facs_in: dict[str, list] = {}
        w_inj = 3.0 if prop == "C19" else 0.8
        w_fac = 2.5 if prop in ("C04", "C19") else 1.2
        w_bad = 1.6 if prop in ("C03", "C18") else 0.4
        self.w = {"add": 3.0, "fac": w_fac, "get": 3.5 if prop != "C19" else 2.0, "inj": w_inj, "getres": 0.5, "bad": w_bad, "p": 1.2}
        # a small universe makes collisions and inheritance frequent
        self.tn = list(TNAMES[: rng.choice((2, 3, 4, 5))])
        self.names = list(NAMES[: rng.choice((1, 2, 3))])

    def types(self, multi_p: float = 0.3) -> list:
        rng = self.rng
        k = 1
        if rng.random() < multi_p:
            k = rng.choice((2, 2, 3))
        return rng.sample(self.tn, min(k, len(self.tn)))

    def anc(self, lineage: list) -> Any:
        if len(lineage) > 1 and self.rng.random() < 0.2:
            return self.rng.choice(lineage[:-1])
        return None

    def act(self, lineage: list, depth: int) -> list:
        rng = self.rng
        op = pick(rng, self.w)
        if self.prop == "C18" and rng.random() < 0.03:
            return ["ctxprobe"]
        if op == "p":
            return rpause(rng)
        if op == "add":
            types = self.types() if rng.random() < 0.75 else []
            spec: dict[str, Any] = {"types": types, "name": rng.choice(self.names)}
            if types and rng.random() < 0.2:
                spec["falsy"] = True
            if not types:
                spec["cls"] = rng.choice([t for t in self.tn if t != "L"] or ["A"])
            if types and rng.random() < 0.06:
                spec["reuse"] = True
            if rng.random() < 0.3:
                spec["td"] = True
                if rng.random() < 0.1:
                    spec["td"] = rng.choice(("reqarg", "genfunc"))
                elif rng.random() < 0.4:
                    late: list = []
                    for _ in range(rng.choice((1, 1, 2))):
                        k = pick(rng, {"add": 5, "get": 2.5, "inj": 2.0 if self.prop == "C19" else 0.7, "child": 1.2})
                        if k == "add":
                            la: dict[str, Any] = {"types": self.types(0.2), "name": rng.choice(self.names), "desc": "late"}
                            if rng.random() < 0.5:
                                la["td"] = True
                            late.append(["add", la])
                        elif k == "get":
                            late.append(["get", {"type": rng.choice(self.tn), "name": rng.choice(self.names), "api": rng.choice(("get", "nowait", "nowait"))}])
                        elif k == "inj":
                            late.append(["inj", {"fn": rng.choice(sorted(CATALOGUE)), "posx": rng.random() < 0.5}])
                        elif self.nctx < self.max_ctx:
                            # a context created (and used) while its parent is being torn down
                            self.nctx += 1
                            late.append(
                                [
                                    "child",
                                    {
                                        "id": f"x{self.nctx}",
                                        "parent": rng.choice(("implicit", "explicit")),
                                        "body": [
                                            ["get", {"type": rng.choice(self.tn), "name": rng.choice(self.names), "api": rng.choice(("get", "nowait"))}]
                                            for _ in range(rng.randint(0, 2))
                                        ]
                                        + [["getres", {"type": rng.choice(self.tn)}]],
                                    },
                                ]
                            )
                    spec["late"] = late
            if rng.random() < 0.2:
                spec["desc"] = f"d{rng.randint(1, 9)}"
            if rng.random() < 0.3:
                spec["via"] = "mod"
            if len(types) == 1 and rng.random() < 0.5:
                spec["single"] = True
            t = self.anc(lineage)
            if t:
                spec["target"] = t
            return ["add", spec]
        if op == "fac":
            self.nfac += 1
            mine = self.facs_in.get(lineage[-1]) or []
            if mine and rng.random() < 0.08:
                # the same callable registered once more for (at least) the same pairs
                return ["fac", {"fid": f"f{self.nfac}", "same_as": rng.choice(mine), "types": self.types(0.4), "name": "-", "kind": "sync"}]
            kind = "async" if rng.random() < (0.6 if self.prop == "C04" else 0.45) else "sync"
            spec = {
                "fid": f"f{self.nfac}",
                "types": self.types(0.4),
                "name": rng.choice(self.names),
                "kind": kind,
            }
            if kind == "async":
                spec["ticks"] = rng.choice((0, 1, 2))
                spec["dur"] = rng.choice(DTS[:5])
                if rng.random() < 0.06:
                    spec["dur"] = rng.choice((6.0, 12.0))  # a really slow one
                if rng.random() < 0.35:
                    spec["wrap"] = rng.choice(("lambda", "callable"))
            if rng.random() < 0.15:
                spec["raises"] = "notfound" if rng.random() < 0.4 else True
            if rng.random() < 0.2:
                spec["falsy"] = True
            elif rng.random() < 0.06:
                spec["none_product"] = True
            if "wrap" not in spec and rng.random() < 0.1:
                spec["wrap"] = "unhashable"
            r = rng.random()
            if r < 0.25:
                spec["annot"] = rng.choice(("union", "pep604"))
                if "L" in spec["types"] and len(spec["types"]) > 1:
                    spec["annot"] = "union"
            if rng.random() < 0.2:
                spec["desc"] = f"fd{rng.randint(1, 9)}"
            if rng.random() < 0.3:
                spec["via"] = "mod"
            if len(spec["types"]) == 1 and rng.random() < 0.4:
                spec["single"] = True
            t = self.anc(lineage)
            if t:
                spec["target"] = t
            else:
                self.facs_in.setdefault(lineage[-1], []).append(spec["fid"])
            return ["fac", spec]
        if op == "get":
            spec = {
                "type": rng.choice(self.tn),
                "name": rng.choice(self.names),
                "api": pick(rng, {"get": 4, "nowait": 3, "mod_get": 1.5, "mod_nowait": 1.5}),
            }
            if rng.random() < 0.3:
                spec["optional"] = True
            if spec["api"] == "get" and rng.random() < 0.12:
                spec["timeout"] = rng.choice((0.25, 0.5, 1.0))
            t = self.anc(lineage)
            if t and not spec["api"].startswith("mod_"):
                spec["target"] = t
            return ["get", spec]
        if op == "inj":
            if self.prop == "C19" and rng.random() < 0.08:
                return ["inj_late", {"async": rng.random() < 0.5}]
            ij = {"fn": rng.choice(sorted(CATALOGUE)), "posx": rng.random() < 0.5}
            if self.prop == "C19" and rng.random() < 0.1:
                ij["cscope"] = True
            return ["inj", ij]
        if op == "getres":
            spec = {"type": rng.choice(self.tn)}
            if rng.random() < 0.4:
                spec["via"] = "mod"
            t = self.anc(lineage)
            if t:
                spec["target"] = t
            return ["getres", spec]
        # bad calls
        r = rng.random()
        if r < 0.6:
            spec = {"types": self.types(), "name": rng.choice(self.names), "td": rng.random() < 0.6}
            bad = pick(rng, {"name": 2, "none_value": 1, "bad_type": 1, "bad_td": 1.5})
            if bad == "name":
                spec["name"] = rng.choice(BAD_NAMES)
            else:
                spec["bad"] = bad
                if bad == "bad_td" and rng.random() < 0.6:
                    spec["bad_td_val"] = rng.choice(sorted(BAD_TDS))
            return ["add", spec]
        self.nfac += 1
        spec = {"fid": f"f{self.nfac}", "types": self.types(0.4), "name": rng.choice(self.names), "kind": "sync"}
        bad = pick(rng, {"name": 2, "none_in_types": 1, "no_types": 1})
        if bad == "name":
            spec["name"] = rng.choice(BAD_NAMES)
        else:
            spec["bad"] = bad
        return ["fac", spec]

    def body(self, lineage: list, depth: int, n: int) -> list:
        rng = self.rng
        out: list = []
        for _ in range(n):
            r = rng.random()
            if r < 0.14 and depth < 4 and self.nctx < self.max_ctx:
                out.append(["child", self.block(lineage, depth + 1)])
            elif r < 0.24 and depth < 4 and self.ntask < 8:
                brs = []
                for _ in range(rng.randint(2, 3 if self.prop != "C04" else 4)):
                    self.ntask += 1
                    brs.append({"name": f"t{self.ntask}", "body": self.body(lineage, depth + 1, rng.randint(1, 4))})
                # racing lookups in the same context: of one key, or of different types
                # under one name (the types of one multi-type factory)
                if rng.random() < (0.7 if self.prop == "C04" else 0.5 if self.prop == "C18" else 0.3):
                    key = {"type": rng.choice(self.tn), "name": rng.choice(self.names)}
                    spread = rng.random() < 0.5
                    for br in brs:
                        k2 = dict(key)
                        if spread:
                            k2["type"] = rng.choice(self.tn)
                        br["body"].insert(
                            rng.randint(0, len(br["body"])),
                            ["get", {**k2, "api": rng.choice(("get", "get", "mod_get", "nowait"))}],
                        )
                # the same injected function called concurrently from different contexts
                if self.prop == "C19" and rng.random() < 0.5 and self.nctx + len(brs) <= self.max_ctx:
                    fn = rng.choice(("a_two", "a_three_names", "a_two", "s_two"))
                    deps = CATALOGUE[fn][2]
                    pre: list = []
                    for (_p, tname_, rname, _opt) in deps[1:]:
                        self.nfac += 1
                        pre.append(
                            ["fac", {"fid": f"f{self.nfac}", "types": [tname_], "name": rname, "kind": "async" if fn != "s_two" else "sync", "ticks": rng.choice((0, 1)), "dur": rng.choice((0.25, 0.5, 1.0))}]
                        )
                    out.extend(pre)
                    first = deps[0]
                    for br in brs:
                        self.nctx += 1
                        blk = {
                            "id": f"x{self.nctx}",
                            "parent": "implicit",
                            "body": [
                                ["add", {"types": [first[1]], "name": first[2]}],
                                rpause(rng),
                                ["inj", {"fn": fn, "posx": rng.random() < 0.5}],
                            ],
                        }
                        br["body"].insert(rng.randint(0, len(br["body"])), ["child", blk])
                out.append(["par", brs])
            else:
                out.append(self.act(lineage, depth))
        return out

    def block(self, lineage: list, depth: int) -> dict:
        rng = self.rng
        self.nctx += 1
        cid = f"x{self.nctx}"
        b: dict[str, Any] = {"id": cid, "parent": rng.choice(("implicit", "implicit", "explicit"))}
        if rng.random() < (0.3 if self.prop == "C18" else 0.08):
            b["noisy_listener"] = rng.choice((1, 2))
        if rng.random() < 0.15:
            b["early_leaver"] = rng.randint(0, 3)
        if rng.random() < 0.08:
            b["boom_listener"] = True
        late = "noisy_listener" not in b and "early_leaver" not in b and "boom_listener" not in b and rng.random() < (0.06 if self.prop == "C18" else 0.01)
        if rng.random() < (0.1 if not lineage else 0.02):
            b["ballast"] = rng.choice((31, 32, 33, 40, 64))
        if len(lineage) >= 2 and rng.random() < 0.15:
            b["parent"] = "ancestor"
            b["parent_id"] = rng.choice(lineage[:-1])
        n = rng.randint(1, 7 if self.tier == "quick" else 10)
        if lineage and rng.random() < 0.25:
            b["between"] = [a for a in (self.act(lineage, depth) for _ in range(rng.randint(1, 3))) if a[0] in ("add", "fac", "get", "p")]
            for a in b["between"]:
                if a[0] != "p":
                    a[1].pop("target", None)
        b["body"] = self.body(lineage + [cid], depth, n)
        if late:
            # its only listener subscribes while a generation is (often) under way
            b["late_listener"] = [rng.choice((0, 1)), rng.choice((0.25, 0.25, 0.5))]
            self.nfac += 1
            f = {"fid": f"f{self.nfac}", "types": self.types(0.3), "name": rng.choice(self.names), "kind": "async", "ticks": rng.choice((1, 2)), "dur": rng.choice((0.5, 1.0))}
            b["body"][0:0] = [["fac", f], ["get", {"type": f["types"][0], "name": f["name"], "api": rng.choice(("get", "mod_get"))}]]
        return b


def gen(rng: random.Random, tier: str, prop: str) -> dict:
    g = G(rng, tier, prop)
    backend = "asyncio" if rng.random() < 0.6 else "trio"
    plan: dict[str, Any] = {
        "v": 1,
        "world": NAME,
        "property": prop,
        "backend": backend,
        "sched": {"policy": rng.choice(("uniform", "coin", "prio", "fifo")), "seed": rng.getrandbits(32)},
        "root": g.block([], 0),
    }
    if rng.random() < (0.15 if prop in ("C04", "C19") else 0.04):
        _make_async_only(plan["root"], rng)
    if prop == "C18" and rng.random() < 0.12:
        plan["straggler"] = {"with_td": rng.random() < 0.7, "k": rng.randint(0, 2), "dt": rng.choice(DTS[:3]), "k0": rng.randint(0, 2)}
    if rng.random() < 0.08:
        # some of the contexts are instances of a falsy Context subclass
        def mark(b: dict) -> None:
            if rng.random() < 0.6:
                b["falsy_ctx"] = True
            for a in b.get("body", ()):
                if a[0] == "child":
                    mark(a[1])
                elif a[0] == "par":
                    for br in a[1]:
                        for a2 in br.get("body", ()):
                            if a2[0] == "child":
                                mark(a2[1])

        mark(plan["root"])
    return plan


def _make_async_only(root: dict, rng: random.Random) -> None:
    """Swarm knob: a plan that only ever uses the asynchronous lookup API - which is what
    makes factories returning awaitable *objects* (not coroutines) legitimate in it."""
    async_fns = sorted(k for k, v in CATALOGUE.items() if v[1])

    def fix_acts(acts: list) -> None:
        for a in acts:
            op = a[0]
            if op == "get":
                a[1]["api"] = {"nowait": "get", "mod_nowait": "mod_get"}.get(a[1].get("api", "get"), a[1].get("api", "get"))
            elif op == "inj":
                if not CATALOGUE[a[1]["fn"]][1]:
                    a[1]["fn"] = rng.choice(async_fns)
            elif op == "inj_late":
                a[1]["async"] = True
            elif op == "fac":
                if a[1].get("kind") == "async" and not a[1].get("annot") and not a[1].get("same_as") and rng.random() < 0.7:
                    a[1]["wrap"] = "aw"
            elif op == "add":
                for la in a[1].get("late") or ():
                    fix_acts([la])
            elif op == "child":
                fix_block(a[1])
            elif op == "par":
                for br in a[1]:
                    fix_acts(br.get("body", []))

    def fix_block(b: dict) -> None:
        fix_acts(b.get("between") or [])
        fix_acts(b.get("body") or [])

    fix_block(root)


def static_checks(prop: str) -> list[dict]:
    if prop == "C19":
        return rtypes.decoration_table()
    return []


SIMPLEST = {"kind": "sync", "parent": "implicit", "api": "get"}
