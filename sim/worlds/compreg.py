"""Static pool of generated component classes.

Entry points (sim/plugins/verifsim-0.0.dist-info/entry_points.txt) and module:attr
references must resolve to stable class objects (asphalt caches loaded entry points), so
the classes are fixed and their behaviour is looked up from the harness of the current run
(CURRENT).  K<i>_<p><s>: pool slot i, p=1 overrides prepare(), s=1 overrides start().
"""
from __future__ import annotations

from typing import Any

from asphalt.core import CLIApplicationComponent, Component

CURRENT: Any = None  # the harness of the run in progress
_UNSET: Any = object()
NSLOTS = 48


def _make(i: int, has_prepare: bool, has_start: bool) -> type:
    name = f"K{i}_{int(has_prepare)}{int(has_start)}"

    def __init__(self: Any, **kwargs: Any) -> None:
        CURRENT.on_init(self, kwargs)

    if i % 6 == 2:
        # these slots have a closed set of options (a..d), like most real components: an
        # unknown option makes the constructor *call* fail with a TypeError
        def __init__(self: Any, *, a: Any = _UNSET, b: Any = _UNSET, c: Any = _UNSET, d: Any = _UNSET) -> None:  # type: ignore[misc]  # noqa: F811
            CURRENT.on_init(self, {k: v for k, v in (("a", a), ("b", b), ("c", c), ("d", d)) if v is not _UNSET})

    ns: dict[str, Any] = {"__init__": __init__, "__module__": __name__, "__qualname__": name}
    if has_prepare:

        async def prepare(self: Any) -> None:
            await CURRENT.on_phase(self, "prepare")

        ns["prepare"] = prepare
    if has_start:

        async def start(self: Any) -> None:
            await CURRENT.on_phase(self, "start")

        ns["start"] = start
        if i % 6 == 0:
            # these slots have a plain (non-async) start() that does its leading publications
            # at once and returns the awaitable for the rest (a factory-style start method)
            def start_eager(self: Any) -> Any:
                k = CURRENT.eager_start(self)
                return CURRENT.on_phase(self, "start", k)

            ns["start"] = start_eager
    if i % 2 == 1:
        # odd slots inherit __init__/prepare()/start() from an intermediate base class
        base = type("Base" + name, (Component,), dict(ns, __qualname__="Base" + name))
        return type(name, (base,), {"__module__": __name__, "__qualname__": name})
    if i % 6 == 4:
        # these slots get their prepare()/start() attached *after* the class was created
        # (class decorator, late mixin, patched in by a plug-in): whether a class implements
        # a phase is a question for start-up time, not for class-creation time
        hooks = {k: ns.pop(k) for k in ("prepare", "start") if k in ns}
        cls = type(name, (Component,), ns)
        for k, fn in hooks.items():
            setattr(cls, k, fn)
        return cls
    return type(name, (Component,), ns)


for _i in range(NSLOTS):
    for _p in (False, True):
        for _s in (False, True):
            _c = _make(_i, _p, _s)
            globals()[_c.__name__] = _c


# module attributes that a run re-binds to the class it wants before using the reference
# "sim.worlds.compreg:REBOUND<k>" (a plug-in module being reloaded / replaced)
REBOUND0: Any = None
REBOUND1: Any = None


class Decoy(Component):
    """A component class that must never be instantiated when overridden by configuration."""

    def __init__(self, **kwargs: Any) -> None:
        CURRENT.on_init(self, kwargs)


class CliRoot(CLIApplicationComponent):
    def __init__(self, **kwargs: Any) -> None:
        CURRENT.on_init(self, kwargs)

    async def prepare(self) -> None:
        await CURRENT.on_phase(self, "prepare")

    async def start(self) -> None:
        await CURRENT.on_phase(self, "start")

    async def run(self) -> Any:
        return await CURRENT.on_run(self)


def klass(i: int, has_prepare: bool, has_start: bool) -> type:
    return globals()[f"K{i}_{int(has_prepare)}{int(has_start)}"]


class T0: ...
class T1: ...
class T2: ...
class T3: ...
class T4: ...
class T5: ...
class T6: ...
class T7: ...
class T8: ...
class T9: ...
class T10: ...
class T11: ...


RTYPES = [T0, T1, T2, T3, T4, T5, T6, T7, T8, T9, T10, T11]
