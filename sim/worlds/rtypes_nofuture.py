"""More @inject catalogue entries - in a module WITHOUT `from __future__ import annotations`,
so that the annotations below are real typing objects that merely *contain* a string
forward reference (Optional["A"], Union["B", None], "C | None" is covered elsewhere):
inject() has to resolve the reference inside the construct, not only whole-string
annotations."""
from typing import Any, Optional, Union

from asphalt.core import inject, resource

from . import rtypes
from .rtypes import BODY_RAN, CALL, _reg

A = rtypes.A
B = rtypes.B
C = rtypes.C
D = rtypes.D


@inject
async def a_nested_fwd_optional(x: Any, *, r: Optional["A"] = resource("a"), k: Any = None) -> Any:
    BODY_RAN.add(CALL.get())
    return {"x": x, "k": k, "r": [r]}


_reg("a_nested_fwd_optional", a_nested_fwd_optional, True, [("r", "A", "a", True)], "nested_fwd")


@inject
def s_nested_fwd_union(x: Any, *, r: Union["B", None] = resource(), k: Any = None) -> Any:
    BODY_RAN.add(CALL.get())
    return {"x": x, "k": k, "r": [r]}


_reg("s_nested_fwd_union", s_nested_fwd_union, False, [("r", "B", "default", True)], "nested_fwd")


@inject
async def a_plain_fwd(x: Any, *, r: "D" = resource("b"), k: Any = None) -> Any:
    BODY_RAN.add(CALL.get())
    return {"x": x, "k": k, "r": [r]}


_reg("a_plain_fwd", a_plain_fwd, True, [("r", "D", "b", False)], "nested_fwd")
