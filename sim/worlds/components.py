"""World W3 "components": component trees started by the real start_component().

Serves C05 (start order, concurrency, ownership), C06 (waiting for resources: no lost or
false wake-ups), C07 (failing / stalling component aborts start-up cleanly) and C14
(configuration is a layered deep merge that determines the tree; config left intact).
Also feeds component-specific clauses of C02/C12 (plain contexts created inside phases).

Generated: the tree, each node's class (from a static pool, see compreg.py), hard-coded
add_component() calls vs external configuration, and the action lists of prepare()/start().
Oracles: ordering rules over the trace, trace-ordered wait/publish matching, a model
timeline (critical path) for exact virtual finish / failure / timeout instants, and a
reference deep-merge for constructor arguments.
"""
from __future__ import annotations

import copy
import re as _re
import hashlib
import random
from contextlib import AsyncExitStack
from typing import Any

import anyio
from anyio import CancelScope, move_on_after

from asphalt.core import (
    Component,
    ComponentStartError,
    Context,
    Event,
    NoCurrentContext,
    ResourceConflict,
    ResourceNotFound,
    Signal,
    add_resource,
    add_resource_factory,
    add_teardown_callback,
    current_context,
    get_resource,
    inject,
    resource,
    start_component,
    start_service_task,
)

from ..core import Sim, run_sim
from . import compreg
from .common import DTS, SimError, SimLookup, contains_cancel, is_cancel, pick, rpause


def _tn(t: Any) -> str:
    """Stable display name of a resource type (class or generic alias of a pool class)."""
    return t.__name__ if isinstance(t, type) else str(t).replace("sim.worlds.compreg.", "")


def rtype(ti: int, ga: Any = None) -> Any:
    """The resource type of pool index ti - or a parametrized generic built on it."""
    t = RT[ti]
    if ga == "list":
        return list[t]  # type: ignore[valid-type]
    if ga == "tuple":
        return tuple[t, ...]  # type: ignore[valid-type]
    if ga == "opt":
        return list[t | None]  # type: ignore[valid-type,operator]
    return t


class _Owner:
    sig = Signal(Event)


class HelperT:
    """What the helper task left behind by a prepare() publishes."""


class SimTimeout(TimeoutError):
    """A component's own TimeoutError (e.g. a connect timeout) - not a start-up timeout."""


def _group1(msg: str) -> BaseException:
    """What a component whose own task group had one failing subtask raises: a group with
    exactly one member.  It is *the group* that the component raised."""
    return ExceptionGroup(msg, [SimError(msg + " (member)")])


FAIL_CLASSES = {"SimError": SimError, "SimLookup": SimLookup, "SimTimeout": SimTimeout, "group1": _group1}

NAME = "components"
PROPS = ("C05", "C06", "C07", "C14", "C02", "C12", "C18", "C03", "C09", "C11", "C19")
RT = compreg.RTYPES


def deep_merge(a: Any, b: Any) -> Any:
    """Reference right-biased deep merge (the model for C14)."""
    out = dict(a) if a else {}
    for k, v in (b or {}).items():
        if isinstance(out.get(k), dict) and isinstance(v, dict):
            out[k] = deep_merge(out[k], v)
        else:
            out[k] = v
    return out


def node_cls(n: dict) -> type:
    return compreg.klass(n["slot"], bool(n.get("prepare") is not None), bool(n.get("start") is not None))


def type_form(n: dict, tf: str) -> Any:
    cls = node_cls(n)
    if tf == "class":
        return cls
    if tf == "ref":
        return f"sim.worlds.compreg:{cls.__name__}"
    if tf == "rebound":
        # a module:attr reference whose attribute is (re)bound by every run to the class it
        # wants: the reference has to be resolved anew each time it is used
        return f"sim.worlds.compreg:REBOUND{n.get('rb', 0)}"
    if tf == "ep":
        return "v" + cls.__name__.lower()
    if tf == "decoy":
        return compreg.Decoy
    if tf == "decoy_ep":
        return "vkdecoy"
    return None


def walk(n: dict, path: str = ""):
    yield path, n
    for c in n.get("children", ()):
        yield from walk(c, f"{path}.{c['alias']}" if path else c["alias"])


def ext_tree(n: dict) -> dict:
    out: dict[str, Any] = {}
    for c in n.get("children", ()):
        e = c.get("ext")
        sub = ext_tree(c)
        if e is None and not sub:
            continue
        if e == "null" and not sub:
            out[c["alias"]] = None
            continue
        if e == "null":
            e = {}
        entry: dict[str, Any] = copy.deepcopy((e or {}).get("kw", {}))
        tf = (e or {}).get("tf")
        if tf:
            entry["type"] = type_form(c, tf)
        if sub:
            entry["components"] = sub
        out[c["alias"]] = entry
    return out


# ------------------------------------------------------------------ nested sub-trees
# A component may start a private sub-tree from its own prepare()/start() with a nested
# start_component(SubRoot, {"sid": ...}, timeout=...).  The nested call is a start-up of its
# own: its own watchdog, its own ComponentStartError (path relative to *its* root).  When
# the component lets that error out, the outer call has to wrap it like any other failure.
class ST0:  # what nested sub-trees publish (under the default name)
    pass


class ST1:
    pass


class STV:
    pass


SUBT = {"s0": ST0, "s1": ST1, "v0": STV}


class SubRoot(Component):
    def __init__(self, sid: str) -> None:
        self.sid = sid
        h = compreg.CURRENT
        spec = h.subspecs[sid]
        h.sim.log("sub_init", sid=sid, path="")
        if spec.get("kid"):
            self.add_component("kid", SubKid, sid=sid)
        if spec.get("fail") == "init":
            raise h.sub_exc(spec, "init")

    async def prepare(self) -> None:
        await compreg.CURRENT.sub_phase(self.sid, "", "prepare")

    async def start(self) -> None:
        h = compreg.CURRENT
        await h.sub_phase(self.sid, "", "start")
        spec = h.subspecs[self.sid]
        if spec.get("pub") and spec.get("fail") != "start":
            # the nested root publishes under the default name: "default" it is - the alias
            # of whichever component made the nested call has nothing to do with it
            add_resource(h.val(f"sub_{self.sid}"), "default", [SUBT[self.sid]])
            c = Context()
            h.sim.log("sub_pub", sid=self.sid, parent_is_real=c.parent is h.real, sees_own=SUBT[self.sid] in [t for t in SUBT.values() if c.get_resources(t)])


class SubKid(Component):
    def __init__(self, sid: str) -> None:
        self.sid = sid
        compreg.CURRENT.sim.log("sub_init", sid=sid, path="kid")

    async def start(self) -> None:
        await compreg.CURRENT.sub_phase(self.sid, "kid", "start")


def all_subs(plan: dict) -> list:
    """(owner path, phase, spec) of every nested start-up of the plan: those called from a
    phase and those a service task makes later on."""
    out = []
    for p_, n_ in walk(plan["tree"]):
        for ph_ in ("prepare", "start"):
            for a_ in n_.get(ph_) or ():
                if a_[0] == "sub":
                    out.append((p_, ph_, a_[1]))
                elif a_[0] == "svc" and a_[1].get("later_sub"):
                    out.append((p_, "service", a_[1]["later_sub"]))
    return out


_INJ_CACHE: dict[tuple, Any] = {}


def _injected_lookup(t: type, name: str, optional: bool) -> Any:
    """An @inject-decorated coroutine function with one dependency (type t, resource `name`,
    Optional or not)."""
    from typing import Optional as _Optional

    key = (t, name, optional)
    if key not in _INJ_CACHE:

        async def dep(*, r=resource(name)):  # type: ignore[no-untyped-def]
            return r

        dep.__annotations__ = {"r": _Optional[t] if optional else t}
        dep.__qualname__ = f"dep_{_tn(t)}_{name}_{int(optional)}"
        _INJ_CACHE[key] = inject(dep)
    return _INJ_CACHE[key]


def sub_model(spec: dict) -> dict:
    """What a nested start_component() does, relative to the instant it is called."""
    d0, d1, d2 = spec["d"]
    kid = bool(spec.get("kid"))
    total = d0 + (d1 if kid else 0.0) + d2
    fail = spec.get("fail")
    if fail == "kid" and not kid:
        fail = None
    T = spec["timeout"] if "timeout" in spec else 20
    if fail:
        ft = {"init": 0.0, "prepare": d0, "kid": d0 + d1, "start": total}[fail]
        if T and fail != "init" and ft == T:
            return {"kind": "tie", "dt": T}
        if T and fail != "init" and ft > T:
            return {"kind": "timeout", "dt": T}
        where = {"init": ("creating", "", "SubRoot"), "prepare": ("preparing", "", "SubRoot"), "kid": ("starting", "kid", "SubKid"), "start": ("starting", "", "SubRoot")}[fail]
        return {"kind": "fail", "dt": ft, "phase": where[0], "path": where[1], "ctype": where[2], "cause": f"SF:{spec['sid']}:{fail}"}
    if T and total == T:
        return {"kind": "tie", "dt": T}
    if T and total > T:
        return {"kind": "timeout", "dt": T}
    return {"kind": "return", "dt": total}


def expand_subs(plan: dict) -> tuple[dict, bool]:
    """The plan as the outer tree sees it: a nested start-up is a pause of the modelled
    length, followed (when it fails or times out and the component lets that out) by a
    failure of the component's own phase.  Second value: some nested outcome is a tie."""
    if not any(a[0] == "sub" for _p, n in walk(plan["tree"]) for ph in ("prepare", "start") for a in n.get(ph) or ()):
        return plan, False
    out = copy.deepcopy(plan)
    tie = False
    for _p, n in walk(out["tree"]):
        for ph in ("prepare", "start"):
            if n.get(ph) is None:
                continue
            acts: list = []
            for a in n[ph]:
                if a[0] != "sub":
                    acts.append(a)
                    continue
                m = sub_model(a[1])
                tie = tie or m["kind"] == "tie"
                acts.append(["p", 0, m["dt"]])
                if m["kind"] in ("fail", "timeout") and a[1].get("raise"):
                    acts.append(["fail", "sub"])
            n[ph] = acts
    return out, tie


# =============================================================================== harness
class H:
    def __init__(self, sim: Sim, plan: dict) -> None:
        self.sim = sim
        self.plan = plan
        self.by_cls: dict[type, tuple[str, dict]] = {}
        for path, n in walk(plan["tree"]):
            self.by_cls[node_cls(n)] = (path, n)
        self.instances: dict[str, Any] = {}
        # hard-coded add_component() keyword arguments live as long-lived objects (like
        # module-level default dictionaries in a real component) shared by every start
        self.hard_kw: dict[str, dict] = {
            path: copy.deepcopy((n.get("hard") or {}).get("kw", {})) for path, n in walk(plan["tree"])
        }
        self.real: Context | None = None
        self.vals: dict[int, str] = {}
        self.keep: list[Any] = []
        self.nv = 0
        self.round = 0
        self.ndecoy = 0
        self.cctx: dict[str, Any] = {}
        self.in_phase: dict[str, Any] = {}
        self.side_tg: Any = None
        self.td_callables: dict[str, Any] = {}
        self.block_ended = anyio.Event()
        self.sc_done = anyio.Event()
        self.subspecs: dict[str, dict] = {sp["sid"]: sp for _p, _ph, sp in all_subs(plan)}

    # ---- nested sub-trees
    def sub_exc(self, spec: dict, where: str) -> BaseException:
        e = FAIL_CLASSES.get(spec.get("fcls", "SimError"), SimError)(f"sub {spec['sid']} {where}")
        e.tag = f"SF:{spec['sid']}:{where}"  # type: ignore[attr-defined]
        self.sim.fault("raise_in_nested_tree")
        self.sim.log("sub_fail", sid=spec["sid"], where=where)
        return e

    async def sub_phase(self, sid: str, spath: str, phase: str) -> None:
        sim = self.sim
        spec = self.subspecs[sid]
        sim.log("sub_phase_begin", sid=sid, path=spath, phase=phase)
        how = "done"
        try:
            d = spec["d"][{("", "prepare"): 0, ("kid", "start"): 1, ("", "start"): 2}[(spath, phase)]]
            await sim.pause(1 if d == 0 else 0, d)
            where = {("", "prepare"): "prepare", ("kid", "start"): "kid", ("", "start"): "start"}[(spath, phase)]
            if spec.get("fail") == where:
                raise self.sub_exc(spec, where)
        except BaseException as e:
            how = "cancelled" if is_cancel(e) else "failed"
            raise
        finally:
            sim.log("sub_phase_end", sid=sid, path=spath, phase=phase, how=how)

    async def sub(self, spec: dict, path: str, phase: str) -> None:
        sim = self.sim
        sid = spec["sid"]
        kw: dict[str, Any] = {}
        if "timeout" in spec:
            kw["timeout"] = spec["timeout"]
        ts = sim.now()
        sim.log("sub_begin", sid=sid, path=path, phase=phase)
        try:
            comp = await start_component(SubRoot, {"sid": sid}, **kw)
        except BaseException as e:
            if is_cancel(e) or contains_cancel(e):
                # the outer start-up ended first (or at the same instant)
                # mixed: the nested start-up had an error of its own at the very instant the
                # cancellation arrived (a group holding both comes out)
                sim.log("sub_end", sid=sid, out="cancelled", dt=sim.now() - ts, mixed=not is_cancel(e))
                raise
            d: dict[str, Any] = {"cls": type(e).__name__}
            if isinstance(e, ComponentStartError):
                d.update(
                    phase=e.phase,
                    cpath=e.path,
                    ctype=getattr(e.component_type, "__name__", str(e.component_type)),
                    cause=getattr(e.__cause__, "tag", type(e.__cause__).__name__),
                )
            sim.log("sub_end", sid=sid, out="raised", dt=sim.now() - ts, **d)
            if spec.get("raise"):
                # the component lets the nested failure out of its own phase
                e.tag = f"F:{path}:{phase}"  # type: ignore[attr-defined]
                sim.fault("raise_in_" + phase)
                sim.log("fail", path=path, phase=phase, tag=e.tag, nested=sid)  # type: ignore[attr-defined]
                raise
        else:
            sim.log("sub_end", sid=sid, out="returned", dt=sim.now() - ts, is_subroot=type(comp) is SubRoot)

    def val(self, tag: str, falsy: bool = False) -> Any:
        class V:
            pass

        class F:
            """A resource object that happens to be falsy (empty container, zero, ...)."""

            def __bool__(self) -> bool:
                return False

            def __len__(self) -> int:
                return 0

        v = F() if falsy else V()
        self.vals[id(v)] = tag
        self.keep.append(v)
        return v

    def vtag(self, v: Any) -> Any:
        if v is None:
            return None
        return self.vals.get(id(v), f"?{type(v).__name__}")

    # ---- component hooks
    def on_init(self, inst: Any, kwargs: dict) -> None:
        sim = self.sim
        cls = type(inst)
        if cls not in self.by_cls:
            sim.log("init_foreign", cls=cls.__name__, kwargs=_j(kwargs))
            return
        path, n = self.by_cls[cls]
        self.instances[path] = inst
        sim.log("init", path=path, cls=cls.__name__, kwargs=_j(kwargs), round=self.round)
        for c in n.get("children", ()):
            hard = c.get("hard")
            if hard is None:
                continue
            tf = hard.get("tf")
            kw = self.hard_kw[f"{path}.{c['alias']}" if path else c["alias"]]
            if c.get("fail_init") == "bad_kw":
                # an option the (closed-signature) component class does not know
                kw = {**kw, "zz_unknown_option": 1}
                sim.fault("raise_in_constructor")
            if tf == "alias" or tf is None:
                inst.add_component(c["alias"], **kw)
            else:
                inst.add_component(c["alias"], type_form(c, tf), **kw)
            if hard.get("dup_attempt"):
                # a second declaration under the same alias is refused - and leaves no trace
                try:
                    inst.add_component(c["alias"], compreg.Decoy, refused=True)
                except ValueError:
                    sim.probe("duplicate_alias_refused")
                else:
                    sim.log("note", what="duplicate_alias_accepted", path=path, alias=c["alias"])
        if n.get("fail_init") and n["fail_init"] != "bad_kw":
            e = FAIL_CLASSES.get(n["fail_init"], SimError)(f"init {path}")
            e.tag = f"F:{path}:creating"  # type: ignore[attr-defined]
            sim.fault("raise_in_constructor")
            sim.log("fail", path=path, phase="creating", tag=e.tag)  # type: ignore[attr-defined]
            raise e

    def eager_start(self, inst: Any) -> int:
        """The synchronous part of a plain start(): the leading publications of the phase."""
        path, n = self.by_cls[type(inst)]
        k = 0
        acts = n.get("start") or ()
        while k < len(acts) and acts[k][0] == "pub":
            self.pub(acts[k][1], path, "start")
            k += 1
        return k

    async def on_phase(self, inst: Any, phase: str, skip: int = 0) -> None:
        sim = self.sim
        path, n = self.by_cls[type(inst)]
        self.cctx[path] = current_context()
        sim.log("phase_begin", path=path, phase=phase, same=inst is self.instances.get(path), round=self.round)
        how = "done"
        self.in_phase[path] = phase
        try:
            await self.acts((n.get(phase) or ())[skip:], path, n, phase)
        except BaseException as e:
            how = "cancelled" if is_cancel(e) else "failed"
            raise
        finally:
            # (a start() that was aborted leaves the component "starting" for good)
            self.in_phase[path] = None if how == "done" else "aborted"
            sim.log("phase_end", path=path, phase=phase, how=how, round=self.round)

    async def acts(self, acts: Any, path: str, n: dict, phase: str) -> None:
        sim = self.sim
        for a in acts:
            op = a[0]
            if op == "p":
                await sim.pause(a[1], a[2])
            elif op == "pub":
                self.pub(a[1], path, phase)
            elif op == "wait":
                await self.wait(a[1], path, phase)
            elif op == "pwait":
                # the component waits for several resources at once (one task each)
                async with anyio.create_task_group() as wtg:
                    for w in a[1]:
                        wtg.start_soon(self.wait, w, path, phase, name=f"w:{path}:{w['wid']}")
            elif op == "burst":
                self.burst(a[1], path)
            elif op == "flood":
                # scale knob: hundreds of unrelated, live signal owners come into being (and
                # use their signals) while components are parked waiting
                for _ in range(a[1]["n"]):
                    o = _Owner()
                    o.sig  # noqa: B018
                    self.keep.append(o)
                sim.log("flood", path=path, n=a[1]["n"])
            elif op == "td":
                self.td(a[1], path)
            elif op == "td_again":
                # the very same callable once more (one release() per lease): two
                # registrations, two calls, each in its own LIFO slot
                cb_ = self.td_callables.get(a[1])
                if cb_ is not None:
                    add_teardown_callback(cb_)
                    sim.log("td_reg", td=a[1], path=path, late=False)
            elif op == "svc":
                await self.svc(a[1], path)
            elif op == "childctx":
                await self.childctx(path, phase)
            elif op == "sub":
                await self.sub(a[1], path, phase)
            elif op == "tf":
                await self.tf(a[1], path)
            elif op == "late_add":
                # declaring a child once start-up is under way is refused (the whole
                # hierarchy exists before any prepare()/start() runs)
                inst = self.instances.get(path)
                try:
                    inst.add_component(f"late{self.ndecoy}", compreg.Decoy)
                except RuntimeError:
                    sim.log("late_add", path=path, phase=phase, out="refused")
                else:
                    sim.log("late_add", path=path, phase=phase, out="accepted")
            elif op == "conflict_handled":
                self.conflict_handled(a[1], path, phase)
            elif op == "stall":
                sim.stall(a[1])
            elif op == "pg":
                # the component is suspended in the clean-up of an async generator it is closing
                async def _agen() -> Any:
                    try:
                        yield 1
                    finally:
                        await sim.pause(0, a[1])

                g_ = _agen()
                await g_.__anext__()
                await g_.aclose()
            elif op == "sp":
                # work that must not be interrupted (shielded from cancellation)
                sim.log("sp_begin", path=path, t=sim.now(), round=self.round)
                with CancelScope(shield=True):
                    await sim.pause(0, a[1])
                sim.log("sp_end", path=path, t=sim.now(), round=self.round)
            elif op == "helper_pub":
                self.helper_pub(a[1], path, n)
            elif op == "fail":
                sim.fault("raise_in_" + phase)
                if a[1] == "conflict":
                    # the single failure is a rejected add_resource(): a second resource under
                    # a key this very phase has just published, with a teardown callback
                    sim.log("fail", path=path, phase=phase, tag="ResourceConflict")
                    t_conf = RT[len(RT) - 2]
                    add_resource(self.val(f"pre_{path}"), "conflict_key", [t_conf])

                    def rogue() -> None:
                        sim.log("td_run", td=f"rogue_{path}")

                    add_resource(self.val(f"dup_{path}"), "conflict_key", [t_conf], teardown_callback=rogue)
                    sim.log("note", what="conflict_not_raised")
                    continue
                if a[1] == "fac_lookup":
                    # the failure comes out of a resource factory the component itself has
                    # registered a moment ago, and it is a LookupError (as a failed dict or
                    # registry access inside the factory would be): a failure like any other
                    e = SimLookup(f"{phase} {path}")
                    e.tag = f"F:{path}:{phase}"  # type: ignore[attr-defined]
                    sim.log("fail", path=path, phase=phase, tag=e.tag)  # type: ignore[attr-defined]

                    def broken_factory(e: BaseException = e) -> Any:
                        raise e

                    add_resource_factory(broken_factory, f"broken_{self.ndecoy}", types=[RT[len(RT) - 2]])
                    await get_resource(RT[len(RT) - 2], f"broken_{self.ndecoy}")
                    sim.log("note", what="broken_factory_did_not_fail")
                    continue
                e = FAIL_CLASSES[a[1]](f"{phase} {path}")
                e.tag = f"F:{path}:{phase}"  # type: ignore[attr-defined]
                sim.log("fail", path=path, phase=phase, tag=e.tag)  # type: ignore[attr-defined]
                raise e

    def helper_pub(self, spec: dict, path: str, n: dict) -> None:
        """prepare() leaves a helper task behind (it keeps the component's context) that
        publishes a default-named resource as soon as it gets to run: whether that name is
        re-mapped depends on whether start() is executing at that moment - and on nothing else."""
        sim = self.sim
        if self.side_tg is None:
            return
        h = self
        rnd = self.round

        async def helper() -> None:
            try:
                in_phase = h.in_phase.get(path)
                add_resource(HelperT(), "default", [HelperT])
                names = sorted(h.real.get_resources(HelperT)) if h.real is not None else None
                sim.log("helper_pub", path=path, in_phase=in_phase, names=names, alias=n.get("alias"), round=rnd)
            except BaseException as e:  # noqa: BLE001
                if is_cancel(e):
                    raise
                sim.log("helper_pub", path=path, in_phase=None, names=None, exc=type(e).__name__, round=rnd)

        self.side_tg.start_soon(helper, name=f"w:helper_{path}")

    def conflict_handled(self, spec: dict, path: str, phase: str) -> None:
        """A publication that is rejected half-way and handled by the component: two types,
        the second of which is taken under that name (by this very component, a moment
        ago).  It must leave no trace: nothing registered under the first type, no teardown
        callback, no event - the regular publication of that type follows."""
        sim = self.sim
        t_conf = RT[len(RT) - 2]
        name = spec["name"]
        try:
            add_resource(self.val(f"pre_{spec['rid']}"), name, [t_conf])
        except ResourceConflict:
            pass  # an earlier prelude of this context already holds it
        rid = spec["rid"]

        def rogue() -> None:
            sim.log("td_run", td=f"rogue_{rid}")

        try:
            add_resource(self.val(f"bad_{rid}"), name, [RT[spec["t"]], t_conf], teardown_callback=rogue)
        except ResourceConflict:
            sim.probe("handled_conflict")
        else:
            sim.log("note", what="conflict_not_raised", rid=rid)

        # ... and one that is rejected for another reason (an invalid name, no value)
        def rogue2() -> None:
            sim.log("td_run", td=f"rogue_{rid}_invalid")

        try:
            if spec.get("invalid") == "none":
                add_resource(None, "nv_" + rid, [RT[spec["t"]]], teardown_callback=rogue2)
            else:
                add_resource(self.val(f"bad2_{rid}"), "not a valid name!", [RT[spec["t"]]], teardown_callback=rogue2)
        except (ValueError, TypeError):
            sim.probe("handled_invalid_add")
        else:
            sim.log("note", what="invalid_add_not_raised", rid=rid)

    def pub(self, spec: dict, path: str, phase: str) -> None:
        sim = self.sim
        types = [rtype(spec["t"], spec.get("ga"))] + ([RT[spec["t2"]]] if spec.get("t2") is not None else [])
        name = spec.get("name", "default")
        rid = spec["rid"]
        kw: dict[str, Any] = {}
        if spec.get("desc"):
            kw["description"] = spec["desc"]
        # a lone parametrized generic is given as such (not wrapped in a list)
        typearg: Any = types[0] if spec.get("ga") and len(types) == 1 else types
        try:
            if spec.get("fac"):
                h = self

                async def afac() -> Any:
                    await sim.pause(0, spec.get("fdur", 0.0))
                    v = h.val(f"g_{rid}", bool(spec.get("falsy")))
                    sim.log("fac_product", rid=rid, val=h.vtag(v))
                    return v

                def sfac() -> Any:
                    v = h.val(f"g_{rid}", bool(spec.get("falsy")))
                    sim.log("fac_product", rid=rid, val=h.vtag(v))
                    return v

                fac_ = afac if spec.get("fdur") is not None else sfac
                if spec.get("fobj"):
                    # a callable object with value semantics (equality defined: unhashable)
                    inner_ = fac_
                    if spec.get("fdur") is not None:

                        class _UhFac:
                            __hash__ = None  # type: ignore[assignment]

                            def __eq__(self_, other: Any) -> bool:
                                return type(other) is type(self_)

                            async def __call__(self_) -> Any:
                                return await inner_()

                    else:

                        class _UhFac:  # type: ignore[no-redef]
                            __hash__ = None  # type: ignore[assignment]

                            def __eq__(self_, other: Any) -> bool:
                                return type(other) is type(self_)

                            def __call__(self_) -> Any:
                                return inner_()

                    fac_ = _UhFac()  # type: ignore[assignment]
                if spec.get("annot") and not spec.get("ga") and not spec.get("fobj"):
                    # the types come from the factory's return annotation (a union of them)
                    from typing import Union

                    fac_.__annotations__["return"] = types[0] if len(types) == 1 else Union[tuple(types)]  # type: ignore[valid-type]
                    add_resource_factory(fac_, name, **kw)
                else:
                    add_resource_factory(fac_, name, types=typearg, **kw)
            else:
                v = self.val(rid, bool(spec.get("falsy")))
                tl = list(types) if typearg is types else typearg  # the publisher's own scratch list, re-used right after
                if spec.get("td"):
                    tdid = f"rtd_{rid}"

                    def cb() -> None:
                        sim.log("td_run", td=tdid)

                    if spec["td"] == "falsy":
                        # a callable collection of clean-up steps that is still empty

                        class _Steps:
                            def __len__(self_) -> int:
                                return 0

                            def __call__(self_) -> None:
                                cb()

                        kw["teardown_callback"] = _Steps()
                    else:
                        kw["teardown_callback"] = cb
                    add_resource(v, name, tl, **kw)
                    sim.log("td_reg", td=tdid, path=path)
                else:
                    add_resource(v, name, tl, **kw)
                if isinstance(tl, list):
                    tl[:] = [compreg.Decoy]
        except Exception as e:
            sim.log("pub_failed", rid=rid, path=path, exc=f"{type(e).__name__}: {e}"[:100], types=[_tn(t) for t in types])
            raise
        sim.log("pub", rid=rid, path=path, phase=phase, types=[_tn(t) for t in types], name=name, fac=bool(spec.get("fac")))

    def burst(self, spec: dict, path: str) -> None:
        """n non-matching publications in one step (decoys for waiters)."""
        sim = self.sim
        n = spec["n"]
        for i in range(n):
            self.ndecoy += 1
            if spec.get("kind") == "subtype":
                # same name, a *subclass* of the awaited type: still a different type
                sub_t = type(f"Sub{self.ndecoy}", (RT[spec["t"]],), {})
                add_resource(sub_t(), spec["ctxname"], [sub_t])
            elif spec.get("kind") == "type":
                # same name as awaited resources, a type nobody waits for
                decoy_t = type(f"Decoy{self.ndecoy}", (), {})
                add_resource(decoy_t(), spec.get("name", "default") if not spec.get("ctxname") else spec["ctxname"], [decoy_t])
            else:
                # same type as an awaited resource, a name nobody waits for
                t = RT[spec["t"]]
                add_resource(object(), f"dk{self.ndecoy}", [t])
        sim.fault("publication_burst")
        sim.log("burst", path=path, n=n, kind=spec.get("kind"))

    async def wait(self, spec: dict, path: str, phase: str) -> None:
        sim = self.sim
        t = rtype(spec["t"], spec.get("ga"))
        name = spec["name"]
        wid = spec["wid"]
        sim.log("wait_begin", wid=wid, path=path, type=_tn(t), name=name, opt=bool(spec.get("opt")))
        try:
            if spec.get("giveup") is not None:
                v = None
                with move_on_after(spec["giveup"]) as scope:
                    v = await get_resource(t, name)
                if scope.cancelled_caught:
                    sim.fault("wait_given_up")
                    sim.log("wait_end", wid=wid, path=path, out="gaveup", val=None)
                    return
            elif spec.get("via") == "inject":
                # the dependency is declared on an @inject-ed coroutine function called from
                # the phase (as one would decorate start() itself): equivalent to the lookup
                v = await _injected_lookup(t, name, bool(spec.get("opt")))()
            elif spec.get("opt"):
                v = await get_resource(t, name, optional=True)
            elif spec.get("via") == "parent_ctx" and path and self.cctx.get(path.rpartition(".")[0]) is not None:
                # asked through the component context of the parent (which is busy starting
                # its children right now): start-up is under way, so this waits like any other
                v = await self.cctx[path.rpartition(".")[0]].get_resource(t, name)
            else:
                v = await get_resource(t, name)
        except BaseException as e:
            sim.log("wait_end", wid=wid, path=path, out="cancelled" if is_cancel(e) else f"exc:{type(e).__name__}", val=None)
            raise
        sim.log("wait_end", wid=wid, path=path, out="ok", val=self.vtag(v))

    def td(self, spec: dict, path: str, late: bool = False) -> None:
        sim = self.sim
        tdid = spec["id"]
        nested = spec.get("nested")
        h = self

        def follow_up() -> None:
            # a callback registered while the teardown is already running
            if nested:
                h.td(nested, path, late=True)

        if spec.get("async") and spec.get("aw_obj"):
            # a plain callable returning an awaitable *object* (not a coroutine)
            async def _rest() -> None:
                await sim.pause(0, spec.get("dur", 0.0))
                follow_up()
                sim.log("td_done", td=tdid)

            class _AwTd:
                def __await__(self_) -> Any:
                    return _rest().__await__()

            def cb() -> Any:  # type: ignore[misc]
                sim.log("td_run", td=tdid)
                return _AwTd()

        elif spec.get("async"):

            async def cb() -> None:
                sim.log("td_run", td=tdid)
                await sim.pause(0, spec.get("dur", 0.0))
                follow_up()
                sim.log("td_done", td=tdid)

        else:

            def cb() -> None:  # type: ignore[misc]
                sim.log("td_run", td=tdid)
                follow_up()
                sim.log("td_done", td=tdid)

        add_teardown_callback(cb)
        self.td_callables[tdid] = cb
        sim.log("td_reg", td=tdid, path=path, late=late)

    async def svc(self, spec: dict, path: str) -> None:
        sim = self.sim
        name = spec["name"]
        h = self

        async def body(*, task_status: Any) -> None:
            try:
                c = current_context()
                sim.log("svc_start", svc=name, parent_is_real=c.parent is h.real, fresh=c is not h.real)
                if spec.get("own_td") is not None:
                    # a teardown callback of the task's OWN context that takes a while: the
                    # task is not finished before this has finished

                    async def own_td() -> None:
                        sim.log("svc_own_td", svc=name, what="start")
                        await anyio.sleep(spec["own_td"])
                        sim.log("svc_own_td", svc=name, what="done")

                    c.add_teardown_callback(own_td)
                await sim.pause(0, spec.get("delay", 0.0))
                task_status.started(name)
                if spec.get("later_sub"):
                    # long after the start-up that spawned this task has ended, the task
                    # starts a component tree of its own, with a timeout of its own
                    await h.sc_done.wait()
                    await sim.pause(0, spec["later_sub"].get("delay", 0.0))
                    await h.sub(spec["later_sub"], f"svc:{name}", "service")
                if spec.get("action") == "none":
                    # nobody stops this task: it ends by itself a little after the calling
                    # context's block has ended, and teardown has to wait for that
                    try:
                        await h.block_ended.wait()
                        await anyio.sleep(spec.get("tail", 1.0))
                    except BaseException as e:
                        if is_cancel(e):
                            sim.log("svc_cancelled", svc=name, action="none", block_ended=h.block_ended.is_set())
                        raise
                else:
                    await anyio.sleep(1e6)
            finally:
                sim.log("svc_end", svc=name)

        if spec.get("action") == "none":
            ret = await start_service_task(body, spec.get("display", name), teardown_action=None)
        else:
            ret = await start_service_task(body, spec.get("display", name))
        sim.log("svc_reg", svc=name, path=path, ret=ret)

    async def tf(self, spec: dict, path: str) -> None:
        """A component starts a background task factory and hands it a task that is still
        running when the calling context is left: teardown waits for it, never cancels it."""
        sim = self.sim
        name = spec["name"]
        h = self
        from asphalt.core import start_background_task_factory

        factory = await start_background_task_factory()

        async def job() -> None:
            c = current_context()
            sim.log("tf_task_start", tf=name, fresh=c is not h.real, grandparent_is_real=c.parent is not None and c.parent.parent is h.real)
            try:
                await h.block_ended.wait()
                await anyio.sleep(spec.get("tail", 1.0))
                sim.log("tf_task_end", tf=name, how="done")
            except BaseException as e:
                sim.log("tf_task_end", tf=name, how="cancelled" if is_cancel(e) else f"exc:{type(e).__name__}", block_ended=h.block_ended.is_set())
                raise

        factory.start_task_soon(job, name)
        sim.log("tf_reg", tf=name, path=path)

    async def childctx(self, path: str, phase: str) -> None:
        """A plain Context() created inside a component phase (C02 / C12 clauses)."""
        sim = self.sim
        assert self.real is not None
        cur = current_context()
        # (explicitly naming the current context as parent is the same thing)
        c = Context(cur) if self.ndecoy % 2 else Context()
        self.ndecoy += 1
        views_equal = True
        diff = None
        for t in RT:
            a = c.get_resources(t)
            b = {k: x for k, x in self.real.get_resources(t).items() if not str(self.vtag(x)).startswith("g_")}
            if dict(a) != dict(b) or any(a[k] is not b[k] for k in a):
                views_equal = False
                diff = (t.__name__, sorted(a), sorted(b))
                break
        async with c:
            inside = current_context() is c
        from asphalt.core._component import ComponentContext as _CC
        from asphalt.core import Event as _Ev
        from asphalt.core import UnboundSignal as _Unb

        try:
            _CC.resource_added.dispatch(_Ev())
            cls_level = "accepted"
        except _Unb:
            cls_level = "UnboundSignal"
        except BaseException as e:  # noqa: BLE001
            cls_level = type(e).__name__
        sim.log(
            "childctx",
            path=path,
            phase=phase,
            sig_own=cur.resource_added is not self.real.resource_added and cur.resource_added is cur.resource_added,
            sig_cls_level=cls_level,
            parent_is_real=c.parent is self.real,
            parent_is_component_ctx=c.parent is cur,
            views_equal=views_equal,
            diff=diff,
            inside=inside,
            restored=current_context() is cur,
        )


def _j(x: Any) -> Any:
    if isinstance(x, dict):
        return {str(k): _j(v) for k, v in x.items()}
    if isinstance(x, (list, tuple)):
        return [_j(v) for v in x]
    if isinstance(x, type):
        return f"<class {x.__name__}>"
    if isinstance(x, (int, float, str, bool)) or x is None:
        return x
    return f"<{type(x).__name__}>"


def _ids(x: Any, out: dict, path: str = "") -> None:
    if isinstance(x, dict):
        out[path] = id(x)
        for k, v in x.items():
            _ids(v, out, f"{path}/{k}")


def build_config(plan: dict) -> tuple[Any, dict]:
    tree = plan["tree"]
    cfg: dict[str, Any] = copy.deepcopy(tree.get("root_kw", {}))
    sub = ext_tree(tree)
    if sub or plan.get("empty_components"):
        cfg["components"] = sub
    sh = plan.get("share_ext")
    if sh and sub.get(sh[0]) is not None and sub.get(sh[0]) == sub.get(sh[1]):
        # one mapping object configures two components (a re-used defaults dict, a YAML
        # anchor): equal to the configuration made of two separate, equal mappings
        sub[sh[1]] = sub[sh[0]]
    bad = plan.get("bad_child_cfg")
    if bad is not None:
        # a child whose configuration is neither None nor a mapping (and falsy at that)
        cfg.setdefault("components", {})[bad["alias"]] = copy.deepcopy(bad["value"])
    root_type = type_form(tree, tree.get("root_tf", "class"))
    return root_type, cfg


def plan_duration(plan: dict) -> float:
    total = 0.0
    for _p, n in walk(plan["tree"]):
        for ph in ("prepare", "start"):
            for a in n.get(ph) or ():
                if a[0] == "p":
                    total += a[2]
                elif a[0] in ("stall", "sp", "pg"):
                    total += a[1]
                elif a[0] == "pub" and a[1].get("fdur"):
                    total += a[1]["fdur"]
                elif a[0] == "svc":
                    total += a[1].get("delay", 0.0)
                    if a[1].get("later_sub"):
                        ls = a[1]["later_sub"]
                        total += ls.get("delay", 0.0) + min(sum(ls["d"]), (ls.get("timeout") or 20) + 0.5)
                elif a[0] == "sub":
                    total += sum(a[1]["d"])
    return total


def make_main(plan: dict):
    async def main(sim: Sim) -> None:
        h = H(sim, plan)
        compreg.CURRENT = h
        sim.user["h"] = h
        for _p, n_ in walk(plan["tree"]):
            if "rb" in n_:
                setattr(compreg, f"REBOUND{n_['rb']}", node_cls(n_))
        root_type, cfg = build_config(plan)
        snap = copy.deepcopy(cfg)
        ids0: dict = {}
        _ids(cfg, ids0)
        linger = 2 * plan_duration(plan) + 1.0
        rounds = 2 if plan.get("twice") else 1
        import warnings as _warnings

        from asphalt.core import SignalQueueFull

        _wctx = _warnings.catch_warnings(record=True)
        wlist = _wctx.__enter__()
        _warnings.simplefilter("always", SignalQueueFull)
        sim.user["wlist"] = wlist
        for rnd in range(rounds):
            h.round = rnd
            # (some plans leave the calling context under a cancellation: xsc)
            xsc = CancelScope()
            with xsc:
                try:
                    async with AsyncExitStack() as outer_stack:
                        if plan.get("nest"):
                            outer = await outer_stack.enter_async_context(Context())
                            outer.add_resource(object(), "outer_marker")

                            async def check_outer(outer: Context = outer, rnd: int = rnd) -> None:
                                # runs after the calling context has been left: nothing the
                                # components published may have leaked into the enclosing one
                                leaks = []
                                for t_ in RT:
                                    leaks += [f"{t_.__name__}:{k}" for k in outer.get_resources(t_)]
                                for _p, n_ in walk(plan["tree"]):
                                    for ph_ in ("prepare", "start"):
                                        for a_ in n_.get(ph_) or ():
                                            if a_[0] == "pub" and a_[1].get("fac"):
                                                nm_ = final_name(n_, a_[1], ph_)
                                                try:
                                                    got_ = outer.get_resource_nowait(RT[a_[1]["t"]], nm_, optional=True)
                                                except Exception:  # noqa: BLE001  (an async factory is there)
                                                    got_ = "factory"
                                                if got_ is not None:
                                                    leaks.append(f"factory {a_[1]['rid']}:{nm_}")
                                sim.log("outer_view", leaks=sorted(set(leaks)), round=rnd)

                            outer_stack.push_async_callback(check_outer)
                        real_ctx = Context()
                        if plan.get("noisy_listener") is not None:
                            # an earlier subscriber of resource_added with a tiny queue nobody
                            # drains: it overflows at once and must not affect the waiters
                            await outer_stack.enter_async_context(
                                real_ctx.resource_added.stream_events(max_queue_size=plan["noisy_listener"])
                            )
                        # a listener on the calling context (opened before it is entered) hears
                        # every publication the components make, under the name it really got
                        ev_stream = await outer_stack.enter_async_context(
                            real_ctx.resource_added.stream_events(max_queue_size=100000)
                        )
                        ctx = await outer_stack.enter_async_context(_Logged(real_ctx, sim, rnd))
                        h.real = ctx
                        h.instances = {}
                        h.cctx = {}
                        h.block_ended = anyio.Event()
                        h.sc_done = anyio.Event()
                        t0 = sim.now()
                        sim.log("sc_call", t=t0, round=rnd)
                        kw: dict[str, Any] = {}
                        if "timeout" in plan:
                            kw["timeout"] = plan["timeout"]
                        outcome = "returned"
                        side = None
                        tweaked: list = []
                        if plan.get("side"):
                            # helper tasks living beside the start-up (same calling context)
                            side = anyio.create_task_group()
                            await side.__aenter__()
                            h.side_tg = side
                            if plan.get("tweak"):
                                # somebody edits the configuration object right after handing it
                                # to start_component(): the tree was read from it at the call
                                async def tweaker() -> None:
                                    seen_: set = set()
                                    for sub_ in (cfg.get("components") or {}).values():
                                        if isinstance(sub_, dict) and id(sub_) not in seen_:
                                            seen_.add(id(sub_))
                                            tweaked.append((sub_, "a" in sub_, sub_.get("a")))
                                            sub_["a"] = "TWEAKED"
                                    sim.log("tweaked", n=len(tweaked), round=rnd)

                                side.start_soon(tweaker, name="w:tweaker")
                        try:
                            if plan.get("outer_cancel") is not None:
                                with move_on_after(plan["outer_cancel"]) as scope:
                                    comp = await start_component(root_type, cfg, **kw)
                                if scope.cancelled_caught:
                                    outcome = "outer_cancelled"
                                    sim.fault("start_cancelled")
                                    sim.log("sc_cancelled", t=sim.now(), round=rnd)
                            else:
                                comp = await start_component(root_type, cfg, **kw)
                        except BaseException as e:
                            if is_cancel(e) and side is not None:
                                side.cancel_scope.cancel()
                                with CancelScope(shield=True):
                                    await side.__aexit__(None, None, None)
                                side = None
                            if is_cancel(e):
                                raise
                            outcome = "raised"
                            d: dict[str, Any] = {"cls": type(e).__name__, "t": sim.now(), "round": rnd}
                            if isinstance(e, ComponentStartError):
                                d.update(
                                    phase=e.phase,
                                    path=e.path,
                                    ctype=getattr(e.component_type, "__name__", str(e.component_type)),
                                    cause=getattr(e.__cause__, "tag", type(e.__cause__).__name__),
                                )
                            else:
                                d["msg"] = str(e)[:80]
                                d["tag"] = getattr(e, "tag", None)
                            sim.log("sc_raise", **d)
                        else:
                            if outcome == "returned":
                                sim.log(
                                    "sc_return",
                                    t=sim.now(),
                                    same=comp is h.instances.get(""),
                                    round=rnd,
                                )
                        h.sc_done.set()
                        if side is not None:
                            # (let the helpers have their turn, then put the edited values back)
                            await sim.pause(2, 0.0)
                            side.cancel_scope.cancel()
                            await side.__aexit__(None, None, None)
                            h.side_tg = None
                            for sub_, had_, old_ in tweaked:
                                if had_:
                                    sub_["a"] = old_
                                else:
                                    sub_.pop("a", None)
                        # configuration must be intact after every ending
                        ids1: dict = {}
                        _ids(cfg, ids1)
                        sim.log(
                            "cfg_after",
                            equal=cfg == snap,
                            same_objects=ids0 == ids1,
                            outcome=outcome,
                            round=rnd,
                            now=_j(cfg) if cfg != snap else None,
                        )
                        for hp, hk in h.hard_kw.items():
                            want_hk = (dict(walk(plan["tree"]))[hp].get("hard") or {}).get("kw", {})
                            if hk != want_hk:
                                sim.log("hard_kw_mutated", path=hp, now=_j(hk), was=_j(want_hk), round=rnd)
                        # keep running: nothing of the tree may move after start_component ended
                        await anyio.sleep(linger)
                        sim.log("linger_end", round=rnd)
                        # everything published (per the log) must be resolvable here
                        for r in list(sim.trace):
                            if r[4] == "pub" and not r[5]["fac"] and r[5].get("round", rnd) == rnd:
                                pass
                        await h_post(h, sim, rnd)
                        from asphalt.core import ResourceEvent as _RE

                        ctx.resource_added.dispatch(_RE((), "__sentinel__", None, False))
                        with move_on_after(5.0, shield=True):
                            async for ev in ev_stream:
                                if ev.resource_name == "__sentinel__":
                                    break
                                names_ = [_tn(t_) for t_ in ev.resource_types]
                                if all(_re.match(r"^(list\[|tuple\[)?T\d+", n_) for n_ in names_):
                                    sim.log("res_event", types=names_, name=ev.resource_name, is_factory=ev.is_factory, desc=ev.resource_description, round=rnd)
                        sim.log("block_end", round=rnd)
                        h.block_ended.set()
                        if plan.get("exit_cancel"):
                            # the calling context is left by a cancellation: every callback the
                            # components registered is still invoked
                            sim.fault("exit_cancelled")
                            xsc.cancel()
                except BaseException as e:
                    h.block_ended.set()
                    sim.log("ctx_exit", exc=f"{type(e).__name__}: {str(e)[:80]}", round=rnd)
                    if contains_cancel(e) or sim.aborting:
                        raise
                else:
                    sim.log("ctx_exit", exc=None, round=rnd)
        if plan.get("ccprobe"):
            await cc_probe(sim)
        sizes = sorted({str(w.message).split("(")[1].split(")")[0] for w in wlist if "Queue full (" in str(w.message)})
        if plan.get("noisy_listener") is not None:
            # the deliberately tiny queue of the extra listener overflows by design
            sizes = [x for x in sizes if x != str(plan["noisy_listener"])]
        if sizes:
            sim.log("queue_overflow", sizes=sizes, n=len(wlist))
        _wctx.__exit__(None, None, None)

    return main


class _ProbeComp(Component):
    seen: list = []

    async def start(self) -> None:
        _ProbeComp.seen.append(Context().parent)


async def cc_probe(sim: Sim) -> None:
    """Request-per-context style: the same small component is started in one short-lived
    host context after the other.  The component contexts of earlier rounds are garbage by
    then and their addresses get re-used; a context created in start() still has the host
    of *its* round as parent.  (Only the verdict is logged: which round re-uses which
    address is the allocator's business.)"""
    import gc

    ok = True
    for _ in range(40):
        async with Context() as host:
            _ProbeComp.seen = []
            await start_component(_ProbeComp)
            if len(_ProbeComp.seen) != 1 or _ProbeComp.seen[0] is not host:
                ok = False
        del host
        _ProbeComp.seen = []
        gc.collect(0)
    sim.log("ccprobe", ok=ok)


class _Logged:
    """Async CM around the calling context that logs the instant it has been left."""

    def __init__(self, ctx: Context, sim: Sim, rnd: int) -> None:
        self.ctx, self.sim, self.rnd = ctx, sim, rnd

    async def __aenter__(self) -> Context:
        return await self.ctx.__aenter__()

    async def __aexit__(self, *exc: Any) -> Any:
        try:
            return await self.ctx.__aexit__(*exc)
        finally:
            self.sim.log("real_exit", round=self.rnd)


async def h_post(h: H, sim: Sim, rnd: int) -> None:
    """Look every published resource up from the calling context (ownership, remapped names)."""
    assert h.real is not None
    for path, n in walk(h.plan["tree"]):
        for ph in ("prepare", "start"):
            for a in n.get(ph) or ():
                if a[0] != "pub":
                    continue
                spec = a[1]
                want = final_name(n, spec, ph)
                t = rtype(spec["t"], spec.get("ga"))
                got = h.real.get_resources(t)
                fac = bool(spec.get("fac"))
                # (names under which *other* components publish the same type are theirs)
                others = {
                    final_name(n2, a2[1], ph2)
                    for _p2, n2 in walk(h.plan["tree"])
                    for ph2 in ("prepare", "start")
                    for a2 in n2.get(ph2) or ()
                    if a2[0] == "pub" and a2[1]["rid"] != spec["rid"] and spec["t"] in (a2[1]["t"], a2[1].get("t2"))
                }
                present_under = sorted(x for x in got if not x.startswith("dk") and x not in others)
                val = None
                out = "ok"
                try:
                    v = await h.real.get_resource(t, want)
                    val = h.vtag(v)
                except ResourceNotFound:
                    out = "notfound"
                except BaseException as e:
                    if contains_cancel(e):
                        raise
                    out = f"exc:{type(e).__name__}"
                sim.log("post_lookup", rid=spec["rid"], path=path, want_name=want, names=present_under, out=out, val=val, fac=fac, round=rnd)
    for _p, _ph, sp_ in all_subs(h.plan):
        if sp_.get("pub") and any(r[4] == "sub_pub" and r[5]["sid"] == sp_["sid"] for r in sim.trace):
            sim.log("sub_pub_names", sid=sp_["sid"], names=sorted(h.real.get_resources(SUBT[sp_["sid"]])), round=rnd)
    # a plain context lookup of something nobody published never waits
    step0 = sim.step
    try:
        await h.real.get_resource(compreg.RTYPES[11], "nobody_publishes_this")
        sim.log("plain_missing", out="returned", same_step=sim.step == step0)
    except ResourceNotFound:
        sim.log("plain_missing", out="notfound", same_step=sim.step == step0)


def final_name(n: dict, spec: dict, phase: str) -> str:
    name = spec.get("name", "default")
    if name == "default" and phase == "start" and "/" in n.get("alias", ""):
        return n["alias"].split("/", 1)[1]
    return name


# ========================================================================= model timeline
def model_timeline(plan: dict) -> dict:
    """Critical-path model: virtual instants at which phases run, the tree finishes, or the
    injected failure strikes.  None = never (blocked forever)."""
    tree = plan["tree"]
    pubtime: dict[tuple, float] = {}
    genstart: dict[str, float] = {}
    fdur_of: dict[tuple, tuple] = {}
    for _p, n_ in walk(tree):
        for ph_ in ("prepare", "start"):
            for a_ in n_.get(ph_) or ():
                if a_[0] == "pub" and a_[1].get("fac") and a_[1].get("fdur"):
                    nm_ = final_name(n_, a_[1], ph_)
                    for ti_ in [a_[1]["t"]] + ([a_[1]["t2"]] if a_[1].get("t2") is not None else []):
                        fdur_of[(ti_, nm_)] = (a_[1]["rid"], a_[1]["fdur"])
    INF = None
    result: dict[str, Any] = {}
    has_stall = False
    for _ in range(64):
        changed = False
        fail_at: list = []
        ends: dict[tuple, Any] = {}

        def run_phase(path: str, n: dict, phase: str, t: Any) -> Any:
            nonlocal changed, has_stall
            if t is None:
                return None
            for a in n.get(phase) or ():
                op = a[0]
                if op == "p":
                    t += a[2]
                elif op in ("sp", "pg"):
                    t += a[1]
                elif op == "stall":
                    t += a[1]
                    has_stall = True
                elif op == "svc":
                    t += a[1].get("delay", 0.0)
                elif op == "pub":
                    nm = final_name(n, a[1], phase)
                    for ti in [a[1]["t"]] + ([a[1]["t2"]] if a[1].get("t2") is not None else []):
                        key = (ti, nm)
                        if pubtime.get(key) != t:
                            if key not in pubtime or pubtime[key] != t:
                                pubtime[key] = t
                                changed = True
                elif op == "wait":
                    if a[1].get("opt"):
                        continue
                    key = (a[1]["t"], a[1]["name"])
                    if a[1].get("never") or key not in pubtime:
                        return None
                    t = max(t, pubtime[key])
                    if key in fdur_of:
                        # the first waiter to arrive generates (fdur); later ones join it
                        rid_, dur_ = fdur_of[key]  # all types of one factory share one product
                        if rid_ not in genstart or t < genstart[rid_]:
                            genstart[rid_] = t
                            changed = True
                        t = max(t, genstart[rid_] + dur_)
                elif op == "pwait":
                    tmax = t
                    for w_ in a[1]:
                        key = (w_["t"], w_["name"])
                        if key not in pubtime:
                            return None
                        tw = max(t, pubtime[key])
                        if key in fdur_of:
                            rid_, dur_ = fdur_of[key]
                            if rid_ not in genstart or tw < genstart[rid_]:
                                genstart[rid_] = tw
                                changed = True
                            tw = max(tw, genstart[rid_] + dur_)
                        tmax = max(tmax, tw)
                    t = tmax
                elif op == "fail":
                    fail_at.append((t, path, phase))
                    return None
            return t

        def run_node(path: str, n: dict, t: Any) -> Any:
            if n.get("prepare") is not None:
                t = run_phase(path, n, "prepare", t)
                ends[(path, "prepare")] = t
            done: Any = t
            for c in n.get("children", ()):
                cp = f"{path}.{c['alias']}" if path else c["alias"]
                ct = run_node(cp, c, t)
                if ct is None or done is None:
                    done = None
                else:
                    done = max(done, ct)
            if n.get("start") is not None:
                done = run_phase(path, n, "start", done)
                ends[(path, "start")] = done
            return done

        finish = run_node("", tree, 0.0)
        result = {"finish": finish, "fail": min(fail_at)[0] if fail_at else None, "ends": ends, "has_stall": has_stall}
        if not changed:
            break
    return result


# ================================================================================ run
def execute(plan: dict, *, want_digest: bool = False, want_trace: bool = False) -> dict:
    sim = Sim(plan)
    run_sim(sim, make_main(plan))
    compreg.CURRENT = None
    viol = oracle(sim, plan)
    res = {
        "violations": viol,
        "faults": dict(sim.faults),
        "probes": dict(sim.probes),
        "steps": sim.step,
        "vtime": sim.end_time,
        "sig": sim.signature(),
        "deadlock": sim.deadlock,
        "crashed": sim.crashed,
        "step_limit": sim.step_limit,
        "nontrivial": len({r[3] for r in sim.trace}) >= 2 or sum(sim.faults.values()) > 0,
        "final": _final(sim),
    }
    if want_digest:
        res["digest"] = sim.digest()
    if want_trace:
        res["trace"] = sim.dump_trace()
    return res


def _final(sim: Sim) -> str:
    h = hashlib.blake2b(digest_size=8)
    for r in sim.trace:
        if r[4] in ("sc_return", "sc_raise", "post_lookup", "ctx_exit", "init"):
            h.update(repr((r[4], sorted((k, str(v)) for k, v in r[5].items() if k != "t"))).encode())
    return h.hexdigest()


# ============================================================================== oracles
PHASE_KINDS = {"phase_begin", "phase_end", "pub", "wait_begin", "wait_end", "burst", "td_reg", "fail", "childctx", "svc_reg", "init", "fac_product_phase"}


def oracle(sim: Sim, plan: dict) -> list[dict]:
    V: list[dict] = []
    seen: set = set()

    def v(rule: str, key: str, msg: str) -> None:
        if (rule, key) in seen and len(V) > 40:
            return
        seen.add((rule, key))
        V.append({"rule": rule, "key": key, "msg": msg})

    if sim.step_limit:
        return V
    if sim.deadlock:
        for p in ("C05", "C06", "C07", "C14"):
            v(f"{p}.deadlock", "deadlock" if not (p == "C06" and _overflow50(sim)) else "burst>50", "run deadlocked: a component waited forever although the plan's dependencies are acyclic")
        return V

    oplan = plan
    plan, sub_tie = expand_subs(plan)
    tree = plan["tree"]
    nodes = dict(walk(tree))
    rounds = 2 if plan.get("twice") else 1
    model = model_timeline(plan)
    if sub_tie:
        model["has_stall"] = True  # outcome at a nested timeout tie is either one
    fail_plan = None
    for path, n in nodes.items():
        if n.get("fail_init"):
            fail_plan = (path, "creating")
        for ph in ("prepare", "start"):
            for a in n.get(ph) or ():
                if a[0] == "fail":
                    fail_plan = (path, "preparing" if ph == "prepare" else "starting")
    tau = plan.get("timeout", 20) if "timeout" in plan else 20
    loose = _has_giveup(plan)
    exact_time = not model["has_stall"] and plan.get("outer_cancel") is None and not loose

    for rnd in range(rounds):
        tr = [r for r in sim.trace if r[5].get("round", rnd) == rnd or "round" not in r[5]]
        # split the trace of this round by sc_call .. block_end
        begin = next((r[0] for r in sim.trace if r[4] == "sc_call" and r[5]["round"] == rnd), None)
        endr = next((r[0] for r in sim.trace if r[4] == "ctx_exit" and r[5]["round"] == rnd), None)
        if begin is None:
            continue
        tr = [r for r in sim.trace if r[0] >= begin and (endr is None or r[0] <= endr)]
        t0 = next(r[5]["t"] for r in tr if r[4] == "sc_call")
        sc_end = next((r for r in tr if r[4] in ("sc_return", "sc_raise", "sc_cancelled")), None)
        if sc_end is None:
            v("C05.return", "no_end", "start_component neither returned nor raised")
            continue
        end_seq = sc_end[0]
        for r in tr:
            if r[4] == "note" and r[5].get("what") == "duplicate_alias_accepted":
                v("C14.tree", "duplicate_alias_accepted", f"a second add_component({r[5]['alias']!r}) in the constructor of {r[5]['path'] or '(root)'} was accepted")
            if r[4] == "late_add" and r[5]["out"] != "refused":
                v("C05.eager", "late_add_component_accepted", f"add_component() called from {r[5]['phase']}() of {r[5]['path'] or '(root)'} was accepted: the hierarchy must be complete before any prepare()/start() runs")
                v("C14.tree", "late_add_component_accepted", f"add_component() called from {r[5]['phase']}() of {r[5]['path'] or '(root)'} was accepted and silently dropped")
        if oplan.get("bad_child_cfg") is not None:
            # an invalid child configuration: nothing may be created or started
            bad_ = oplan["bad_child_cfg"]
            if sc_end[4] != "sc_raise" or sc_end[5].get("cls") != "TypeError":
                v("C14.tree", "invalid_child_config_accepted", f"child {bad_['alias']!r} configured as {bad_['value']!r} (neither None nor a mapping): start_component gave {sc_end[4]} {sc_end[5]}")
            if any(r[4] == "phase_begin" for r in tr):
                v("C14.tree", "invalid_child_config_started", f"components were started although child {bad_['alias']!r} is configured as {bad_['value']!r}")
            cfg_ = next((r for r in tr if r[4] == "cfg_after"), None)
            if cfg_ is not None and (not cfg_[5]["equal"] or not cfg_[5]["same_objects"]):
                v("C14.config_intact", "mutated_after_invalid", f"configuration object changed: {cfg_[5]}")
            continue

        # ---------------------------------------------------------------- C14 / init
        inits = [r for r in tr if r[4] == "init"]
        for r in tr:
            if r[4] == "init_foreign":
                v("C14.type", "decoy_instantiated", f"component class {r[5]['cls']} was instantiated although the external configuration overrides its type")
        seen_paths = [r[5]["path"] for r in inits]
        expect_created = _expected_created(tree, fail_plan)
        if fail_plan is not None and fail_plan[1] == "creating":
            # which other constructors ran before the failing one is not specified
            dup = sorted({p for p in seen_paths if seen_paths.count(p) > 1})
            if dup or (fail_plan[0] not in seen_paths and nodes[fail_plan[0]].get("fail_init") != "bad_kw") or not set(seen_paths) <= set(nodes):
                v("C14.tree", "nodes", f"components constructed {sorted(seen_paths)} with a failing constructor at {fail_plan[0]}")
        elif sorted(seen_paths) != sorted(expect_created):
            extra = sorted(set(seen_paths) - set(expect_created))
            missing = sorted(set(expect_created) - set(seen_paths))
            dup = sorted({p for p in seen_paths if seen_paths.count(p) > 1})
            v("C14.tree", "nodes", f"components constructed {sorted(seen_paths)}; expected {sorted(expect_created)} (extra {extra}, missing {missing}, duplicated {dup})")
            v("C05.eager", "hierarchy", f"components constructed {sorted(seen_paths)} (round {rnd}); the configuration asks for {sorted(expect_created)} (extra {extra}, missing {missing}, duplicated {dup})")
            if dup:
                v("C05.once", "init_twice", f"components constructed more than once: {dup}")
        for r in inits:
            n = nodes.get(r[5]["path"])
            if n is None:
                continue
            want_kw = _j(expected_kwargs(tree, r[5]["path"]))
            if r[5]["kwargs"] != want_kw:
                v("C14.merge", "kwargs", f"component {r[5]['path'] or '(root)'} constructed with {r[5]['kwargs']}, layered deep merge gives {want_kw}")
            if r[5]["cls"] != node_cls(n).__name__:
                v("C14.type", "class", f"component {r[5]['path']} is a {r[5]['cls']}, expected {node_cls(n).__name__}")
        for r in tr:
            if r[4] == "hard_kw_mutated":
                v("C14.merge", "hardcoded_defaults_mutated", f"the keyword arguments hard-coded in add_component() for {r[5]['path']} were modified by start_component: {r[5]['was']} -> {r[5]['now']}")
            if r[4] == "cfg_after":
                if not r[5]["equal"] or not r[5]["same_objects"]:
                    v("C14.config_intact", f"mutated_after_{r[5]['outcome']}", f"configuration object modified by start_component ({r[5]['outcome']}): now {r[5]['now']}")
        if rnd == 1:
            first = [(r[5]["path"], r[5]["cls"], r[5]["kwargs"]) for r in sim.trace if r[4] == "init" and r[5]["round"] == 0]
            second = [(r[5]["path"], r[5]["cls"], r[5]["kwargs"]) for r in inits]
            if sorted(first, key=str) != sorted(second, key=str):
                v("C14.reuse", "different_tree", "starting the same configuration object twice gave different trees")

        # ---------------------------------------------------------------- C05 ordering
        first_phase = min((r[0] for r in tr if r[4] == "phase_begin"), default=None)
        if first_phase is not None:
            late_inits = [r[5]["path"] for r in inits if r[0] > first_phase]
            if late_inits:
                v("C05.eager", "init_after_phase", f"components {late_inits} were constructed after a prepare()/start() had begun")
        ev: dict[tuple, list] = {}
        for r in tr:
            if r[4] in ("phase_begin", "phase_end"):
                ev.setdefault((r[5]["path"], r[5]["phase"], r[4]), []).append(r)
                if r[4] == "phase_begin" and not r[5].get("same", True):
                    v("C05.instance", "other_instance", f"{r[5]['phase']}() of {r[5]['path']} ran on another instance than the constructed one")
        for (path, phase, kind), rs in ev.items():
            if kind == "phase_begin" and len(rs) > 1:
                v("C05.once", f"{phase}_twice", f"{phase}() of {path or '(root)'} called {len(rs)} times")
        for path, n in nodes.items():
            pre = path + "." if path else ""
            desc = [p for p in nodes if p != path and (p.startswith(pre) if path else True)]
            pe = ev.get((path, "prepare", "phase_end"))
            if pe:
                for d in desc:
                    for ph in ("prepare", "start"):
                        for b in ev.get((d, ph, "phase_begin"), []):
                            if b[0] < pe[0][0]:
                                v("C05.order", "child_before_prepare_end", f"{ph}() of {d} began before prepare() of {path or '(root)'} had finished")
            sb = ev.get((path, "start", "phase_begin"))
            if sb:
                for d in desc:
                    for ph in ("prepare", "start"):
                        begun = ev.get((d, ph, "phase_begin"), [])
                        ended = ev.get((d, ph, "phase_end"), [])
                        nd = nodes[d]
                        if nd.get(ph) is not None and sc_end[4] == "sc_return" and not begun:
                            v("C05.order", "descendant_skipped", f"{ph}() of {d} never ran")
                        for e in ended:
                            if e[0] > sb[0][0]:
                                v("C05.order", "start_before_descendants", f"start() of {path or '(root)'} began before {ph}() of {d} had returned")
                        if begun and not ended:
                            v("C05.order", "start_before_descendants", f"start() of {path or '(root)'} began while {ph}() of {d} was still running")
        if sc_end[4] == "sc_return":
            if not sc_end[5]["same"]:
                v("C05.return", "not_root_instance", "start_component did not return the root component instance")
            for path, n in nodes.items():
                for ph in ("prepare", "start"):
                    if n.get(ph) is not None:
                        e = ev.get((path, ph, "phase_end"))
                        if not e or e[0][5]["how"] != "done":
                            v("C05.return", "returned_early", f"start_component returned although {ph}() of {path or '(root)'} had not completed")
                        elif e[0][0] > end_seq:
                            v("C05.return", "returned_early", f"start_component returned before {ph}() of {path or '(root)'} returned")

        # ---------------------------------------------------------------- timing
        finish = model["finish"]
        expect: str
        if fail_plan is not None and plan.get("outer_cancel") is None:
            mf = model["fail"]
            if model["has_stall"] and tau:
                expect = "any"
            elif tau and mf is not None and mf > tau:
                expect = "timeout"
            elif tau and mf is not None and mf == tau:
                expect = "any"
            elif mf is None and fail_plan[1] != "creating":
                expect = "any"
            else:
                expect = "fail"
        elif plan.get("outer_cancel") is not None:
            expect = "any"
        elif model["has_stall"]:
            expect = "any"
        elif loose:
            # local give-ups / slow factories make the exact instant schedule-dependent;
            # completion itself is still required when nothing can time out
            slack = 0.0
            for _p, n_ in nodes.items():
                for ph_ in ("prepare", "start"):
                    for a_ in n_.get(ph_) or ():
                        if a_[0] == "wait" and a_[1].get("giveup") is not None:
                            slack += a_[1]["giveup"]
                        elif a_[0] == "wait":
                            slack += 2.0  # at most one slow generation in front of it
            expect = "complete" if (finish is not None and (not tau or finish + slack < tau)) else "any"
        elif finish is None:
            expect = "timeout" if tau else "hang"
        elif tau and finish > tau:
            expect = "timeout"
        elif tau and finish == tau:
            expect = "tie"
        else:
            expect = "return"
        n_fail = sum(1 for _p, n_ in nodes.items() for ph_ in ("prepare", "start") for a_ in n_.get(ph_) or () if a_[0] == "fail") + sum(
            1 for _p, n_ in nodes.items() if n_.get("fail_init")
        )
        if n_fail >= 2 and plan.get("outer_cancel") is None:
            # several components fail (possibly at the same instant): which error comes out,
            # or a group of them, is open - but start_component must fail, at that instant
            mf = model["fail"]
            expect = "must_fail" if (mf is not None and (not tau or mf < tau) and not model["has_stall"]) else "any"
        if any(r[4] == "sub_end" and r[5].get("mixed") for r in tr):
            # a nested start-up failed at the very instant the outer one ended for another
            # reason: two simultaneous failures, either of which (or a group) may come out
            expect = "any"
        sim.probe("expect:" + expect)
        if expect == "return":
            if sc_end[4] != "sc_return":
                key = "spurious_timeout" if sc_end[5].get("cls") == "TimeoutError" else "unexpected_failure"
                rule = "C07.timeout" if key == "spurious_timeout" else "C05.complete"
                v(rule, key, f"start-up should complete at t0+{finish} (timeout {tau}) but start_component gave {sc_end[4]} {sc_end[5]}")
                if key != "spurious_timeout":
                    v("C06.lost_wakeup", _lost_key(sim), f"start-up of an acyclic plan failed: {sc_end[5]}")
            elif abs((sc_end[5]["t"] - t0) - finish) > 1e-9:
                late = sc_end[5]["t"] - t0 > finish
                v(
                    "C05.timing",
                    "late" if late else "early",
                    f"start_component returned at t0+{sc_end[5]['t'] - t0}; critical path of the plan is {finish} "
                    f"(siblings must run concurrently, nothing may wait longer than its dependencies)",
                )
                if late:
                    v("C06.late_wakeup", "finish_late", f"start-up finished at t0+{sc_end[5]['t'] - t0}, critical path {finish}")
                    v("C07.timeout", "lingering", f"start-up finished at t0+{sc_end[5]['t'] - t0}, critical path {finish}")
        elif expect == "complete":
            if sc_end[4] != "sc_return":
                v("C05.complete", "unexpected_failure", f"start-up of an acyclic plan failed: {sc_end[5]}")
                v("C06.lost_wakeup", _lost_key(sim), f"start-up of an acyclic plan failed: {sc_end[5]}")
        elif expect == "timeout":
            if sc_end[4] != "sc_raise" or sc_end[5].get("cls") != "TimeoutError":
                v("C07.timeout", "not_raised", f"start-up cannot finish before the timeout ({tau}) but start_component gave {sc_end[4]} {sc_end[5]}")
                if finish is not None:
                    pass
                else:
                    v("C06.false_wakeup", "released", f"a component waiting for a resource nobody publishes was released: {sc_end[5]}")
            elif plan.get("sp_tail"):
                # the root's start() ends with uninterruptible work: if that is under way when
                # the timeout strikes, TimeoutError comes out as soon as it has finished
                spb = next((r for r in tr if r[4] == "sp_begin"), None)
                spe = next((r for r in tr if r[4] == "sp_end"), None)
                want_t = tau
                if spb is not None and spb[5]["t"] - t0 < tau - 1e-9:
                    want_t = (spe[5]["t"] - t0) if spe is not None else None
                elif spb is not None and abs((spb[5]["t"] - t0) - tau) <= 1e-9:
                    want_t = None  # a tie: either
                if want_t is not None and abs((sc_end[5]["t"] - t0) - want_t) > 1e-9:
                    v("C07.timeout", "wrong_instant", f"TimeoutError raised at t0+{sc_end[5]['t'] - t0}; timeout {tau}, uninterruptible work from {spb and spb[5]['t'] - t0} to {spe and spe[5]['t'] - t0}: expected at t0+{want_t}")
            elif abs((sc_end[5]["t"] - t0) - tau) > 1e-9:
                v("C07.timeout", "wrong_instant", f"TimeoutError raised at t0+{sc_end[5]['t'] - t0}, timeout is {tau}")
        elif expect == "tie":
            if sc_end[4] == "sc_raise" and sc_end[5].get("cls") != "TimeoutError":
                v("C07.timeout", "tie_other", f"unexpected outcome at a timeout tie: {sc_end[5]}")
        elif expect == "must_fail":
            if sc_end[4] != "sc_raise":
                v("C05.return", "returned_despite_failures", f"{n_fail} components fail, yet start_component gave {sc_end[4]} {sc_end[5]}")
                v("C07.error", "failures_swallowed", f"{n_fail} components fail, yet start_component gave {sc_end[4]} {sc_end[5]}")
            elif sc_end[5].get("cls") == "TimeoutError":
                v("C07.timeout", "spurious_timeout", f"{n_fail} components fail at t0+{model['fail']} (timeout {tau}) but start_component raised TimeoutError")
            elif exact_time and abs((sc_end[5]["t"] - t0) - model["fail"]) > 1e-9:
                v("C07.prompt", "instant", f"first failure struck at t0+{model['fail']} but start_component raised at t0+{sc_end[5]['t'] - t0}")
        elif expect == "fail":
            fpath, fphase = fail_plan  # type: ignore[misc]
            d = sc_end[5]
            if sc_end[4] != "sc_raise" or d.get("cls") != "ComponentStartError":
                v("C07.error", "not_component_start_error", f"component {fpath} fails while {fphase}; start_component gave {sc_end[4]} {d}")
            else:
                n = nodes[fpath]
                if d["phase"] != fphase:
                    v("C07.error", "phase", f"ComponentStartError.phase={d['phase']!r}, the failure happened while {fphase}")
                if d["path"] != fpath:
                    v("C07.error", "path", f"ComponentStartError.path={d['path']!r}, the failing component is {fpath!r}")
                if d["ctype"] != node_cls(n).__name__:
                    v("C07.error", "component_type", f"ComponentStartError.component_type={d['ctype']}, expected {node_cls(n).__name__}")
                tagphase = {"creating": "creating", "preparing": "prepare", "starting": "start"}[fphase]
                want_cause = f"F:{fpath}:{tagphase}"
                if any(r[4] == "fail" and r[5].get("tag") == "ResourceConflict" for r in tr):
                    want_cause = "ResourceConflict"
                if n.get("fail_init") == "bad_kw":
                    want_cause = "TypeError"  # raised by the constructor call itself
                if d["cause"] != want_cause:
                    v("C07.error", "cause", f"ComponentStartError.__cause__ is {d['cause']}, expected the injected exception {want_cause}")
                if exact_time and model["fail"] is not None and abs((d["t"] - t0) - model["fail"]) > 1e-9:
                    v("C07.prompt", "instant", f"failure struck at t0+{model['fail']} but start_component raised at t0+{d['t'] - t0}")
            # ancestors' start() must not run
            parts = fpath.split(".") if fpath else []
            ancestors = [".".join(parts[:i]) for i in range(len(parts))]
            if fphase == "creating":
                if any(r[4] == "phase_begin" for r in tr):
                    v("C07.clean", "phase_after_ctor_failure", "a prepare()/start() ran although a constructor failed")
            for a in ancestors:
                if ev.get((a, "start", "phase_begin")):
                    v("C07.clean", "ancestor_started", f"start() of ancestor {a or '(root)'} ran although {fpath} failed")
            if fphase == "preparing" and ev.get((fpath, "start", "phase_begin")):
                v("C07.clean", "own_start", f"start() of {fpath} ran although its prepare() failed")

        # ---------------------------------------------------------------- stragglers
        if sc_end[4] in ("sc_raise", "sc_cancelled", "sc_return"):
            begun = {}
            for r in tr:
                if r[0] > end_seq:
                    break
                if r[4] == "phase_begin":
                    begun[(r[5]["path"], r[5]["phase"])] = r
                elif r[4] == "phase_end":
                    begun.pop((r[5]["path"], r[5]["phase"]), None)
            if begun and sc_end[4] != "sc_return":
                v("C07.clean", "still_running", f"start_component ended ({sc_end[4]}) while {sorted(begun)} had not exited")
            for r in tr:
                if r[0] > end_seq and r[4] in PHASE_KINDS and not (r[4] == "td_reg" and r[5].get("late")):
                    rule = "C05.return" if sc_end[4] == "sc_return" else "C07.clean"
                    v(rule, "activity_after_end", f"component activity after start_component ended: {r[4]} {r[5]}")
                    break

        # ---------------------------------------------------------------- nested sub-trees
        any_stall = any(a_[0] == "stall" for _p, n_ in walk(oplan["tree"]) for ph_ in ("prepare", "start") for a_ in n_.get(ph_) or ())
        for path_, ph_, spec_ in all_subs(oplan):
            for _once in (0,):
                for _once2 in (0,):
                    sid = spec_["sid"]
                    sb = next((r for r in tr if r[4] == "sub_begin" and r[5]["sid"] == sid), None)
                    se = next((r for r in tr if r[4] == "sub_end" and r[5]["sid"] == sid), None)
                    if sb is None:
                        continue
                    sim.probe("nested_start")
                    sub_ev = [r for r in tr if r[4] in ("sub_phase_begin", "sub_phase_end", "sub_init", "sub_fail") and r[5]["sid"] == sid]
                    if se is None:
                        if sc_end[4] == "sc_return":
                            v("C05.return", "nested_unfinished", f"start_component returned while the nested start-up {sid} in {path_} had not ended")
                        continue
                    open_ph: dict = {}
                    for r in sub_ev:
                        if r[0] > se[0]:
                            v("C07.clean", "nested_activity_after_end", f"nested start-up {sid} ended ({se[5]['out']}) but its components went on: {r[4]} {r[5]}")
                            break
                        if r[4] == "sub_phase_begin":
                            open_ph[(r[5]["path"], r[5]["phase"])] = r
                        elif r[4] == "sub_phase_end":
                            open_ph.pop((r[5]["path"], r[5]["phase"]), None)
                    else:
                        if open_ph:
                            v("C07.clean", "nested_still_running", f"nested start-up {sid} ended ({se[5]['out']}) while {sorted(open_ph)} had not exited")
                    d_ = se[5]
                    m_ = sub_model(spec_)
                    if d_["out"] == "cancelled":
                        # the surroundings ended first (outer timeout, failure elsewhere, the
                        # calling context was left) - fine unless the nested start-up should
                        # have ended by itself well before that
                        if m_["kind"] != "tie" and not any_stall and exact_time and d_["dt"] > m_["dt"] + 1e-9 and not d_.get("mixed"):
                            if m_["kind"] == "timeout":
                                v("C07.timeout", "nested_not_raised", f"nested start-up {sid} was still running {d_['dt']} after it began; its timeout is {m_['dt']}")
                            else:
                                v("C07.prompt", "nested_lingering", f"nested start-up {sid} was still running {d_['dt']} after it began; it should have ended ({m_['kind']}) after {m_['dt']}")
                        continue
                    sim.probe("nested:" + m_["kind"])
                    if m_["kind"] == "tie" or any_stall:
                        continue  # (a stalled scheduler makes every deadline in the run late)
                    if m_["kind"] == "return":
                        if d_["out"] != "returned":
                            key_ = "nested_spurious_timeout" if d_.get("cls") == "TimeoutError" else "nested_unexpected_failure"
                            v("C07.timeout" if d_.get("cls") == "TimeoutError" else "C07.error", key_, f"nested start-up {sid} (needs {m_['dt']}, timeout {spec_.get('timeout', 20)}) gave {d_}")
                        elif exact_time and abs(d_["dt"] - m_["dt"]) > 1e-9:
                            v("C05.timing", "nested", f"nested start-up {sid} took {d_['dt']}, its critical path is {m_['dt']}")
                    elif m_["kind"] == "timeout":
                        if d_["out"] != "raised" or d_.get("cls") != "TimeoutError":
                            v("C07.timeout", "nested_not_raised", f"nested start-up {sid} cannot finish within its timeout {spec_.get('timeout', 20)} but gave {d_}")
                        elif exact_time and abs(d_["dt"] - m_["dt"]) > 1e-9:
                            v("C07.timeout", "nested_wrong_instant", f"nested start-up {sid}: TimeoutError after {d_['dt']}, its timeout is {m_['dt']}")
                    else:
                        if d_["out"] != "raised" or d_.get("cls") != "ComponentStartError":
                            v("C07.error", "nested_not_component_start_error", f"nested start-up {sid} fails in {m_['phase']} of {m_['path']!r} but gave {d_}")
                        else:
                            for f_, k_ in (("phase", "phase"), ("cpath", "path"), ("ctype", "ctype"), ("cause", "cause")):
                                if d_.get(f_) != m_[k_]:
                                    v("C07.error", "nested_" + k_, f"nested start-up {sid}: ComponentStartError.{k_}={d_.get(f_)!r}, expected {m_[k_]!r}")
                            if exact_time and abs(d_["dt"] - m_["dt"]) > 1e-9:
                                v("C07.prompt", "nested_instant", f"nested start-up {sid}: failure struck after {m_['dt']} but it raised after {d_['dt']}")

        # ---------------------------------------------------------------- C06 waits
        published: dict[tuple, dict] = {}
        wspec_by_wid = {
            w_["wid"]: w_
            for _p, n_ in nodes.items()
            for ph_ in ("prepare", "start")
            for a_ in n_.get(ph_) or ()
            if a_[0] in ("wait", "pwait")
            for w_ in ([a_[1]] if a_[0] == "wait" else a_[1])
        }
        pend: dict[str, dict] = {}
        products: dict[str, str] = {}
        for r in tr:
            k, d = r[4], r[5]
            if k == "pub":
                pnode = nodes[d["path"]]
                spec = _find_pub(pnode, d["rid"])
                nm = final_name(pnode, spec, d["phase"]) if spec else d["name"]
                for tn in d["types"]:
                    published[(tn, nm)] = {"rid": d["rid"], "fac": d["fac"], "seq": r[0], "t": r[2], "step": r[1]}
                # waiters pending on this key must wake at this virtual instant
                for wid, w in pend.items():
                    if (w["type"], w["name"]) in [(tn, nm) for tn in d["types"]]:
                        w["pub"] = published[(w["type"], w["name"])]
            elif k == "fac_product":
                products.setdefault(d["rid"], d["val"])
            elif k == "wait_begin":
                key = (d["type"], d["name"])
                pend[d["wid"]] = {"type": d["type"], "name": d["name"], "opt": d["opt"], "seq": r[0], "t": r[2], "step": r[1], "pub": published.get(key), "had": key in published, "path": d["path"]}
            elif k == "wait_end":
                w = pend.pop(d["wid"], None)
                if w is None:
                    continue
                where = f"{w['path']}: get_resource({w['type']},{w['name']!r})"
                if d["out"] == "cancelled" and w["had"] and not w["opt"] and w["pub"] is not None and not w["pub"]["fac"]:
                    # the (plain) resource was there when the component asked: that lookup does
                    # not suspend, so nothing could have cancelled it
                    via_ = wspec_by_wid.get(d["wid"], {}).get("via")
                    msg_ = f"{where}: the resource was already there, yet the call suspended (and was cancelled later) instead of returning it like every other lookup path does"
                    v("C02.lookup", "component_lookup_suspended_on_present", msg_)
                    v("C06.late_wakeup", "present_but_waited", msg_)
                    if via_ == "inject":
                        v("C19.equiv", "component_lookup_suspended_on_present", msg_)
                if d["out"] in ("cancelled", "gaveup"):
                    continue
                if d["out"] != "ok":
                    v("C06.failed", "exception", f"{where} raised {d['out']}")
                    continue
                if w["opt"]:
                    if r[1] != w["step"] and not (w["had"] and w["pub"]["fac"]):
                        v("C06.optional", "waited", f"{where} optional=True did not return immediately")
                    if not w["had"] and d["val"] is not None:
                        v("C06.optional", "value", f"{where} optional=True returned {d['val']} although nothing was published yet")
                    if w["had"] and not w["pub"]["fac"] and d["val"] != w["pub"]["rid"]:
                        v("C06.value", "optional_present", f"{where} optional=True returned {d['val']}, published object is {w['pub']['rid']}")
                    continue
                p = w["pub"]
                if p is None:
                    v("C06.false_wakeup", "released", f"{where} returned {d['val']} although no matching resource had been published")
                    continue
                want_val = p["rid"] if not p["fac"] else products.get(p["rid"])
                if p["fac"]:
                    if d["val"] is None or not str(d["val"]).startswith("g_" + p["rid"]) or (want_val and d["val"] != want_val):
                        v("C06.value", "factory_product", f"{where} returned {d['val']}, expected the product of factory {p['rid']} ({want_val})")
                elif d["val"] != want_val:
                    v("C06.value", "object", f"{where} returned {d['val']}, the published object is {want_val}")
                sim.probe("wait_already_published" if w["had"] else "wait_released_by_publication")
                if w["had"]:
                    if r[1] != w["step"] and not p["fac"]:
                        v("C06.late_wakeup", "present_but_waited", f"{where}: the resource was already there but the call took scheduler steps")
                else:
                    if r[0] < p["seq"]:
                        v("C06.false_wakeup", "before_publication", f"{where} returned before the publication")
                    if not p["fac"] and exact_time and abs(r[2] - p["t"]) > 1e-9:
                        v("C06.late_wakeup", "late", f"{where}: published at t={p['t']}, waiter resumed at t={r[2]}")
        if sc_end[4] == "sc_raise" and sc_end[5].get("cls") == "TimeoutError" and expect in ("return",):
            for wid, w in pend.items():
                if w["pub"] is not None and not w["opt"]:
                    v("C06.lost_wakeup", _lost_key(sim), f"{w['path']}: get_resource({w['type']},{w['name']!r}) never returned although the resource was published")
        for r in tr:
            if r[4] == "plain_missing":
                if r[5]["out"] != "notfound" or not r[5]["same_step"]:
                    v("C06.plain", "waited", f"a plain Context.get_resource for a missing resource gave {r[5]}")

        # ---------------------------------------------------------------- C18: announced names
        evs = [r[5] for r in tr if r[4] == "res_event" and not r[5]["name"].startswith("dk")]
        for r in tr:
            if r[4] == "pub_failed" and r[5].get("types") and any(e["types"] == r[5]["types"] for e in evs):
                v("C18.events", "failed_call_announced", f"the publication {r[5]['rid']} by {r[5]['path']} failed ({r[5]['exc']}) but was announced on the calling context")
        if any(r[4] == "block_end" for r in tr):
            for r in tr:
                if r[4] != "pub":
                    continue
                d = r[5]
                pnode = nodes[d["path"]]
                spec = _find_pub(pnode, d["rid"])
                want_name = final_name(pnode, spec, d["phase"]) if spec else d["name"]
                mine = [e for e in evs if e["types"] == d["types"]]
                ann = [e for e in mine if e["is_factory"] == d["fac"]]
                if len(ann) != 1:
                    v("C18.events", "component_publication", f"publication {d['rid']} by {d['path']} was announced {len(ann)} times on the calling context (events for its types: {mine})")
                want_desc = (spec or {}).get("desc") or None
                for e in mine:
                    if e.get("desc") != want_desc:
                        v("C18.events", "component_description", f"publication {d['rid']} by {d['path']} was registered with description {want_desc!r} but announced with {e.get('desc')!r}")
                    if e["name"] != want_name:
                        v("C18.events", "component_remap", f"publication {d['rid']} by {d['path']} ({d['phase']}) is registered as {want_name!r} but was announced as {e['name']!r}")

        # ---------------------------------------------------------------- ownership
        for r in tr:
            if r[4] == "post_lookup":
                d = r[5]
                pub_logged = any(x[4] == "pub" and x[5]["rid"] == d["rid"] for x in tr)
                if pub_logged:
                    if d["out"] != "ok":
                        wrong = d["names"]
                        rule, key = ("C14.remap", "name") if wrong else ("C05.ownership", "not_visible")
                        v(rule, key, f"resource {d['rid']} published by {d['path']} is not resolvable as {d['want_name']!r} in the calling context (names present for its type: {wrong})")
                        if not wrong and sc_end[4] != "sc_return":
                            v("C07.ownership", "lost_on_failure", f"resource {d['rid']} registered before the failure is gone")
                    elif not d["fac"] and d["val"] != d["rid"]:
                        v("C05.ownership", "other_object", f"lookup of {d['rid']} returned {d['val']}")
                    elif d["names"] != [d["want_name"]] and not d["fac"]:
                        v("C14.remap", "extra_names", f"resource {d['rid']} visible under {d['names']}, expected only {d['want_name']!r}")
        regs = [r[5]["td"] for r in tr if r[4] == "td_reg"]
        runs = [r[5]["td"] for r in tr if r[4] == "td_run"]
        block_end = next((r[0] for r in tr if r[4] == "block_end"), None)
        exit_seq = next((r[0] for r in tr if r[4] == "real_exit"), None)
        if exit_seq is not None and block_end is not None:
            early = [r[5]["td"] for r in tr if r[4] == "td_run" and r[0] < block_end]
            if early:
                v("C05.ownership", "torn_down_early", f"teardown callbacks {early} ran before the calling context was left")
                v("C07.ownership", "torn_down_early", f"teardown callbacks {early} ran before the calling context was left")
            # a stack: callbacks registered during the teardown go on top and run next
            stack_: list = []
            order_ok = True
            for r in tr:
                if r[4] == "td_reg":
                    stack_.append(r[5]["td"])
                elif r[4] == "td_run":
                    if stack_ and stack_[-1] == r[5]["td"]:
                        stack_.pop()
                    else:
                        order_ok = False
                        if r[5]["td"] in stack_:
                            stack_.remove(r[5]["td"])
            rule = "C05.ownership" if sc_end[4] == "sc_return" else "C07.ownership"
            # every callback that began has finished - awaitable results included - before the
            # next one begins and before the calling context has been left
            open_td: Any = None
            for r in tr:
                if oplan.get("exit_cancel"):
                    break  # (callbacks cancelled at their first checkpoint do not finish)
                if r[4] == "td_run" and not str(r[5]["td"]).startswith(("rogue_", "rtd_")):
                    if open_td is not None and not sim.aborting:
                        v(rule, "teardown_unfinished", f"teardown callback {open_td} had begun but not finished (what it returned was not awaited to the end?) when {r[5]['td']} began")
                    open_td = r[5]["td"]
                elif r[4] == "td_done" and r[5]["td"] == open_td:
                    open_td = None
                elif r[4] == "real_exit" and open_td is not None and not sim.aborting:
                    v(rule, "teardown_unfinished", f"teardown callback {open_td} had begun but not finished when the calling context had been left")
                    open_td = None
            if not order_ok:
                v(rule, "teardown_order", f"teardown callbacks ran {runs}; registered (in order) {regs}")
            elif stack_:
                v(rule, "teardown_missing", f"teardown callbacks {stack_} were registered (some of them while the teardown was running) but never ran; ran {runs}")
            # callbacks registered before a service task was up run only after it has ended;
            # later ones before it is stopped (LIFO position of the task's finalizer)
            for sr in [r for r in tr if r[4] == "svc_reg"]:
                se = next((r for r in tr if r[4] == "svc_end" and r[5]["svc"] == sr[5]["svc"]), None)
                if se is None:
                    continue
                for tdr in [r for r in tr if r[4] == "td_reg" and regs.count(r[5]["td"]) == 1]:
                    run = next((r for r in tr if r[4] == "td_run" and r[5]["td"] == tdr[5]["td"]), None)
                    if run is None:
                        continue
                    rule = "C05.ownership" if sc_end[4] == "sc_return" else "C07.ownership"
                    own_done = next((x for x in tr if x[4] == "svc_own_td" and x[5]["svc"] == sr[5]["svc"] and x[5]["what"] == "done"), None)
                    if tdr[0] < sr[0] and own_done is not None and run[0] < own_done[0]:
                        v(rule, "callback_before_service_context_end", f"teardown callback {tdr[5]['td']} (registered before service task {sr[5]['svc']} was up) ran before that task's own context had been torn down")
                    if tdr[0] < sr[0] and run[0] < se[0]:
                        v(rule, "callback_before_service_end", f"teardown callback {tdr[5]['td']} (registered before service task {sr[5]['svc']} was up) ran before that task had ended")
            svcs = [r[5]["svc"] for r in tr if r[4] == "svc_start"]
            ended = [r[5]["svc"] for r in tr if r[4] == "svc_end" and r[0] < exit_seq]
            if sorted(svcs) != sorted(ended):
                v("C05.ownership", "service_task_running", f"service tasks {sorted(set(svcs) - set(ended))} still running after the calling context was left")
            for r in tr:
                if r[4] == "svc_end" and r[0] < block_end and sc_end[4] == "sc_return":
                    v("C05.ownership", "service_task_stopped_early", f"service task {r[5]['svc']} ended before the calling context was left")
                if r[4] == "svc_start" and not (r[5]["parent_is_real"] and r[5]["fresh"]):
                    v("C12.task", "svc_parent", f"service task {r[5]['svc']} context: {r[5]}")
        for r in tr:
            if r[4] == "sub_pub_names" and r[5]["names"] != ["default"]:
                v("C14.remap", "nested_inherits_alias", f"the root of a nested start_component() published under 'default'; in the calling context it is registered as {r[5]['names']}")
                v("C06.lost_wakeup", "nested_default_renamed", f"a resource published under 'default' by a nested tree is registered as {r[5]['names']}: whoever waits for it under 'default' is never released")
            if r[4] == "sub_pub":
                if not r[5]["parent_is_real"]:
                    v("C12.parent", "nested_component_phase", f"Context() created in start() of a nested tree's root: its parent is not the context the (outer) start_component was called in ({r[5]})")
                if not r[5]["sees_own"]:
                    v("C02.component_parent", "nested_snapshot", f"Context() created in start() of a nested tree's root does not see what that very phase has just published ({r[5]})")
            if r[4] == "tf_task_start" and not (r[5]["fresh"] and r[5]["grandparent_is_real"]):
                v("C09.context", "component_factory", f"task of a factory started by a component: {r[5]}")
            if r[4] == "tf_task_end" and r[5]["how"] != "done" and not sim.aborting:
                rule_ = "C05.ownership" if sc_end[4] == "sc_return" else "C07.ownership"
                v("C09.teardown", "cancelled@component_factory", f"task {r[5]['tf']} of a task factory started by a component was still running when the calling context was left and ended {r[5]['how']}: teardown waits for such tasks, it does not cancel them")
                v(rule_, "factory_task_cancelled", f"task {r[5]['tf']} of a task factory started by a component ended {r[5]['how']} at teardown")
            if r[4] == "childctx":
                if r[5].get("sig_own") is False:
                    v("C11.identity", "component_context_shares_signal", f"the component context of {r[5]['path']} and the calling context share one bound resource_added signal")
                    v("C18.events", "component_context_shares_signal", f"a listener on the component context of {r[5]['path']} would hear every publication made on the calling context: the two share one bound resource_added signal")
                if r[5].get("sig_cls_level") not in (None, "UnboundSignal"):
                    v("C11.unbound", "component_context_class", f"ComponentContext.resource_added.dispatch() on the class gave {r[5]['sig_cls_level']}, expected UnboundSignal")
            if r[4] == "td_run" and str(r[5]["td"]).startswith("rogue_"):
                v("C03.atomic", "td_of_failed_add_component", f"teardown callback {r[5]['td']} of an add_resource() that a component's call had rejected (ResourceConflict) ran")
            if r[4] == "svc_cancelled" and r[5].get("action") == "none" and not sim.aborting:
                if any(x[4] == "svc_reg" and x[5]["svc"] == r[5]["svc"] and x[0] < r[0] for x in tr):
                    rule_ = "C05.ownership" if sc_end[4] == "sc_return" else "C07.ownership"
                    v(rule_, "service_cancelled_despite_none", f"service task {r[5]['svc']} was started with teardown_action=None (it ends by itself and is waited for) but was cancelled")
            if r[4] == "outer_view" and r[5]["leaks"]:
                v("C05.ownership", "leaked_to_enclosing_context", f"after the calling context was left the enclosing context holds {r[5]['leaks']}")
                v("C02.component_parent", "leak_up", f"after the calling context was left the enclosing context holds {r[5]['leaks']}")
            if r[4] == "ctx_exit" and r[5]["exc"] is not None and not oplan.get("exit_cancel"):
                v("C05.ownership", "exit_exception", f"leaving the calling context raised {r[5]['exc']}")
            if r[4] == "childctx":
                d = r[5]
                if not d["parent_is_real"]:
                    v("C12.parent", "component_phase", f"Context() created in {d['phase']}() of {d['path']} has parent_is_real={d['parent_is_real']} parent_is_component_ctx={d['parent_is_component_ctx']}")
                if not d["views_equal"]:
                    v("C02.component_parent", "snapshot", f"Context() created in {d['phase']}() of {d['path']} does not see what the calling context holds: {d['diff']}")
                if not d["inside"] or not d["restored"]:
                    v("C12.current", "component_phase", f"current_context() around a nested context in {d['path']}: {d}")
    for r in sim.trace:
        if r[4] == "helper_pub" and r[5].get("names") is not None and r[5].get("in_phase") != "aborted":
            d_ = r[5]
            want_nm = d_["alias"].split("/", 1)[1] if d_["in_phase"] == "start" and "/" in (d_["alias"] or "") else "default"
            if d_["names"] != [want_nm]:
                v("C14.remap", "helper_between_phases", f"a task left behind by prepare() of {d_['path']} published a resource named 'default' while {'start()' if d_['in_phase'] == 'start' else 'neither prepare() nor start()' if d_['in_phase'] is None else 'prepare()'} of the component was executing: it is registered as {d_['names']}, expected {[want_nm]}")
    for r in sim.trace:
        if r[4] == "ccprobe" and not r[5]["ok"]:
            v("C12.parent", "component_phase@recycled_component_context", "a context created in start() of a component, started in a fresh host context after many earlier start-ups in other (closed) host contexts, did not get its own host context as parent")
    if _overflow50(sim):
        # runs in which a waiting component's 50-slot queue (and no other queue) really
        # overflowed (known finding: more than 50 publications in one step): lost, late and
        # never-delivered wake-ups of such runs are keyed so that exactly this cause can be
        # recognised
        for x in V:
            if x["rule"] in ("C06.lost_wakeup", "C06.late_wakeup", "C06.deadlock"):
                x["key"] = "burst>50"
    return V


def _has_giveup(plan: dict) -> bool:
    for _p, n in walk(plan["tree"]):
        for ph in ("prepare", "start"):
            for a in n.get(ph) or ():
                if a[0] == "wait" and a[1].get("giveup") is not None:
                    return True
    return False


def _overflow50(sim: Sim) -> bool:
    wl = sim.user.get("wlist") or []
    sizes = {str(w.message).split("(")[1].split(")")[0] for w in wl if "Queue full (" in str(w.message)}
    noisy = sim.plan.get("noisy_listener")
    if noisy is not None:
        sizes.discard(str(noisy))
    return sizes == {"50"}


def _lost_key(sim: Sim) -> str:
    return "burst>50" if _overflow50(sim) else "lost"


def _find_pub(n: dict, rid: str) -> Any:
    for ph in ("prepare", "start"):
        for a in n.get(ph) or ():
            if a[0] == "pub" and a[1]["rid"] == rid:
                return a[1]
    return None


def _expected_created(tree: dict, fail_plan: Any) -> list:
    """Paths constructed: all of them, or - when a constructor fails - the nodes constructed
    before it in depth-first post-order (children are instantiated after their parent's
    constructor returns, in merged-configuration order)."""
    if fail_plan is None or fail_plan[1] != "creating":
        return [p for p, _ in walk(tree)]
    out: list = []
    hit = False

    def rec(path: str, n: dict) -> None:
        nonlocal hit
        if hit:
            return
        out.append(path)
        if path == fail_plan[0]:
            hit = True
            return
        # merged order: hard-coded children first (declaration order), then config-only ones
        kids = [c for c in n.get("children", ()) if c.get("hard") is not None] + [
            c for c in n.get("children", ()) if c.get("hard") is None
        ]
        for c in kids:
            rec(f"{path}.{c['alias']}" if path else c["alias"], c)

    rec("", tree)
    return out


def expected_kwargs(tree: dict, path: str) -> dict:
    if path == "":
        return dict(tree.get("root_kw", {}))
    node = tree
    for part in _split(tree, path):
        node = next(c for c in node["children"] if c["alias"] == part)
    hard = (node.get("hard") or {}).get("kw", {})
    ext = node.get("ext")
    extkw = ext.get("kw", {}) if isinstance(ext, dict) else {}
    return deep_merge(hard, extkw)


def _split(tree: dict, path: str) -> list:
    # aliases never contain dots
    return path.split(".")


# ============================================================================ generator
def rkw(rng: random.Random, depth: int = 0) -> dict:
    out: dict[str, Any] = {}
    for k in rng.sample(["a", "b", "c", "d"], rng.randint(0, 3)):
        r = rng.random()
        if r < 0.4:
            out[k] = rng.randint(0, 9)
        elif r < 0.6:
            out[k] = rng.choice(["x", "y", "z"])
        elif r < 0.68:
            out[k] = None
        elif r < 0.75:
            out[k] = [rng.randint(0, 3)]
        elif depth < 3:
            out[k] = rkw(rng, depth + 1)
        else:
            out[k] = {}
    return out


class G:
    def __init__(self, rng: random.Random, tier: str, prop: str) -> None:
        self.rng = rng
        self.tier = tier
        self.prop = prop
        self.slots = list(range(compreg.NSLOTS))
        rng.shuffle(self.slots)
        self.nnodes = 0
        self.max_nodes = 7 if tier == "quick" else 10
        self.nt = 0
        self.nw = 0
        self.nrb = 0
        self.ntf = 0
        self.ntd = 0
        self.nsvc = 0
        self.ndk = 0
        self.ga_of: dict[int, str] = {}

    def skeleton(self, depth: int, alias: str) -> dict:
        rng = self.rng
        self.nnodes += 1
        n: dict[str, Any] = {
            "alias": alias,
            "slot": self.slots.pop(),
            "prepare": [] if rng.random() < 0.6 else None,
            "start": [] if rng.random() < 0.7 else None,
            "children": [],
        }
        if depth < 3:
            k = rng.choice((0, 1, 1, 2, 2, 3, 4)) if depth < 2 else rng.choice((0, 0, 1, 2))
            for i in range(k):
                if self.nnodes >= self.max_nodes or not self.slots:
                    break
                n["children"].append(self.child(depth + 1, i))
        return n

    def child(self, depth: int, i: int) -> dict:
        rng = self.rng
        # decide declaration style
        style = pick(rng, {"hard": 3, "both": 3, "ext": 2, "ext_null": 0.7})
        suffix = f"/res{self.nnodes}" if rng.random() < 0.4 else ""
        c = self.skeleton(depth, "tmp")
        cls = node_cls(c)
        epname = "v" + cls.__name__.lower()
        alias_form = False
        hard: Any = None
        ext: Any = None
        if style in ("hard", "both"):
            tf = pick(rng, {"class": 3, "ref": 1.5, "ep": 1.5, "alias": 1.5})
            hard = {"tf": tf, "kw": rkw(rng)}
            if rng.random() < 0.15:
                hard["dup_attempt"] = True
            alias_form = tf == "alias"
            if style == "both":
                ext = {"tf": None, "kw": rkw(rng)}
                r = rng.random()
                if r < 0.25:
                    ext["tf"] = rng.choice(("class", "ref", "ep"))
                    if rng.random() < 0.6 and not alias_form:
                        hard["tf"] = rng.choice(("decoy", "decoy_ep"))
        elif style == "ext":
            tf = pick(rng, {"class": 2, "ref": 1.5, "ep": 1.5, "none": 1.5})
            ext = {"tf": None if tf == "none" else tf, "kw": rkw(rng)}
            alias_form = tf == "none"
        else:
            ext = "null"
            alias_form = True
        if rng.random() < 0.08 and self.nrb < 2:
            # declared through a module:attr reference to a re-bound module attribute
            for decl in (hard, ext):
                if isinstance(decl, dict) and decl.get("tf") == "ref":
                    decl["tf"] = "rebound"
                    c["rb"] = self.nrb
            if "rb" in c:
                self.nrb += 1
        if alias_form:
            c["alias"] = epname + suffix
        else:
            c["alias"] = f"c{self.nnodes}_{i}{suffix}"
        c["hard"] = hard
        c["ext"] = ext
        return c

    # ---- phases in a linear extension of the structural order
    def linear(self, path: str, n: dict) -> list:
        rng = self.rng
        seq: list = []
        if n.get("prepare") is not None:
            seq.append((path, n, "prepare"))
        subs = [self.linear(f"{path}.{c['alias']}" if path else c["alias"], c) for c in n["children"]]
        # random merge preserving each child's internal order
        idx = [0] * len(subs)
        remaining = sum(len(s) for s in subs)
        while remaining:
            choices = [i for i, s in enumerate(subs) if idx[i] < len(s)]
            i = rng.choice(choices)
            seq.append(subs[i][idx[i]])
            idx[i] += 1
            remaining -= 1
        if n.get("start") is not None:
            seq.append((path, n, "start"))
        return seq

    def fill(self, tree: dict) -> None:
        rng = self.rng
        order = self.linear("", tree)
        avail: list = []  # (type index, final name, is factory, fdur)
        wprob = {"C06": 0.5, "C05": 0.3, "C07": 0.25, "C14": 0.12, "C19": 0.45}.get(self.prop, 0.25)
        for path, n, phase in order:
            acts: list = []
            here: list = []
            for _ in range(rng.randint(0, 4)):
                r = rng.random()
                if r < 0.3:
                    acts.append(rpause(rng))
                    if self.prop == "C07" and acts[-1][2] > 0 and rng.random() < 0.15:
                        acts[-1] = ["pg", acts[-1][2]]
                elif r < 0.3 + wprob and avail:
                    ti, nm, isfac, fdur = rng.choice(avail)
                    self.nw += 1
                    w: dict[str, Any] = {"wid": f"w{self.nw}", "t": ti, "name": nm}
                    if ti in self.ga_of:
                        w["ga"] = self.ga_of[ti]
                    if rng.random() < 0.12 and not fdur:
                        w["opt"] = True
                    if rng.random() < (0.6 if self.prop == "C19" else 0.15):
                        w["via"] = "inject"
                    elif rng.random() < 0.1 and "opt" not in w:
                        w["via"] = "parent_ctx"
                    elif self.prop in ("C06", "C05") and isfac and fdur and rng.random() < (0.4 if self.prop == "C06" else 0.25):
                        # this waiter loses patience while the factory is still working
                        w["giveup"] = rng.choice((0.25, 0.5, 1.0))
                    if self.prop in ("C06", "C05") and len(avail) >= 2 and "giveup" not in w and "opt" not in w and rng.random() < 0.2:
                        # the component waits for two different resources at the same time
                        others = [x for x in avail if (x[0], x[1]) != (ti, nm) and not x[3]]
                        if others:
                            ti2, nm2, _f2, _d2 = rng.choice(others)
                            self.nw += 1
                            pair = [w, {"wid": f"w{self.nw}", "t": ti2, "name": nm2, **({"ga": self.ga_of[ti2]} if ti2 in self.ga_of else {})}]
                            rng.shuffle(pair)
                            acts.append(["pwait", pair])
                            continue
                    acts.append(["wait", w])
                elif r < 0.8 and self.nt < len(RT) - 2:
                    self.nt += 1
                    spec: dict[str, Any] = {"rid": f"r{self.nt}", "t": self.nt - 1}
                    spec["name"] = "default" if rng.random() < (0.7 if self.prop == "C14" else 0.5) else f"n{self.nt}"
                    if rng.random() < 0.2 and self.nt < len(RT) - 2:
                        self.nt += 1
                        spec["t2"] = self.nt - 1
                    if rng.random() < 0.2:
                        spec["falsy"] = True
                    if spec.get("t2") is None and rng.random() < 0.12:
                        # the type is a parametrized generic built on the pool class
                        spec["ga"] = rng.choice(("list", "tuple", "opt"))
                        self.ga_of[spec["t"]] = spec["ga"]
                    rr = rng.random()
                    if rr < 0.2:
                        spec["fac"] = True
                        if rng.random() < 0.3:
                            spec["annot"] = True
                        elif rng.random() < 0.2:
                            spec["fobj"] = True
                        if rng.random() < 0.6:
                            spec["fdur"] = 0.0
                            if self.prop in ("C06", "C07", "C05") and rng.random() < 0.4:
                                spec["fdur"] = rng.choice((0.5, 1.0, 2.0))
                    elif rr < 0.4:
                        spec["td"] = True if rng.random() < 0.8 else "falsy"
                    if rng.random() < 0.15:
                        spec["desc"] = "d"
                    if self.prop == "C06" and rng.random() < 0.5:
                        # publish late, so that waiters are usually already parked
                        acts.append(["p", rng.choice((0, 1, 2, 3)), rng.choice((0.0, 0.25, 0.5, 1.0, 2.0))])
                    if not spec.get("fac") and rng.random() < 0.12:
                        acts.append(["conflict_handled", {"rid": spec["rid"], "t": spec["t"], "name": spec["name"], "invalid": rng.choice(("name", "none"))}])
                    if self.prop == "C06":
                        rs = rng.random()
                        if rs < 0.1:
                            # the awaited publication comes at the end of a long volley of
                            # decoys made in the very same step
                            acts.append(["burst", {"n": rng.randint(17, 45), "kind": "name", "t": spec["t"]}])
                        elif rs < 0.13:
                            acts.append(["flood", {"n": rng.choice((255, 260, 300, 520))}])
                    acts.append(["pub", spec])
                    fn = final_name(n, spec, phase)
                    here.append((spec["t"], fn, bool(spec.get("fac")), spec.get("fdur")))
                    if spec.get("t2") is not None:
                        here.append((spec["t2"], fn, bool(spec.get("fac")), spec.get("fdur")))
                elif r < 0.86:
                    self.ntd += 1
                    tdspec: dict[str, Any] = {"id": f"cb{self.ntd}", "async": rng.random() < 0.5, "dur": rng.choice(DTS[:4])}
                    if tdspec["async"] and rng.random() < 0.2:
                        tdspec["aw_obj"] = True
                    if rng.random() < 0.2:
                        self.ntd += 1
                        tdspec["nested"] = {"id": f"cb{self.ntd}", "async": rng.random() < 0.5, "dur": rng.choice(DTS[:3])}
                    acts.append(["td", tdspec])
                    if "nested" not in tdspec and rng.random() < 0.15:
                        if rng.random() < 0.5:
                            self.ntd += 1
                            acts.append(["td", {"id": f"cb{self.ntd}", "async": False, "dur": 0.0}])
                        acts.append(["td_again", tdspec["id"]])
                elif r < 0.9 and self.nsvc < 3:
                    self.nsvc += 1
                    sv: dict[str, Any] = {"name": f"s{self.nsvc}", "delay": rng.choice((0.0, 0.0, 0.5))}
                    if rng.random() < 0.3:
                        sv["action"] = "none"
                        sv["tail"] = rng.choice((0.5, 1.0, 2.0))
                    if sv.get("action") == "none" and rng.random() < 0.6:
                        sv["own_td"] = rng.choice((0.25, 0.5, 1.0))
                    if rng.random() < 0.35:
                        # names of service tasks are descriptive, not unique: several
                        # components (instances of one class, say) use the same one
                        sv["display"] = "worker"
                    acts.append(["svc", sv])
                elif r < 0.915 and self.ntf < 2 and self.prop in ("C05", "C07", "C09"):
                    self.ntf += 1
                    acts.append(["tf", {"name": f"tf{self.ntf}", "tail": rng.choice((0.5, 1.0, 2.0))}])
                elif r < 0.95:
                    acts.append(["childctx"])
                elif avail or here:
                    ti, nm, _f, _d = rng.choice(avail + here)
                    # only C06's thorough tier may overflow a waiter's 50-slot queue (known
                    # finding burst>50); everywhere else the total stays far below it
                    nmax = 60 if (self.tier == "thorough" and self.prop == "C06") else (8 if self.prop == "C06" else 4)
                    nb = rng.randint(1, nmax)
                    rb = rng.random()
                    if rb < 0.4:
                        acts.append(["burst", {"n": nb, "kind": "type", "ctxname": nm}])
                    elif rb < 0.6:
                        acts.append(["burst", {"n": min(nb, 3), "kind": "subtype", "ctxname": nm, "t": ti}])
                    else:
                        acts.append(["burst", {"n": nb, "kind": "name", "t": ti}])
            n[phase] = acts
            avail.extend(here)


def _forward_waits(g: "G", tree: dict, rng: random.Random) -> None:
    """Waits on resources published *later* in the generation order (the waiter is parked
    first).  Kept only if the reference timeline says the plan still completes, i.e. the
    dependency graph stays acyclic."""
    nodes = list(walk(tree))
    pubs = []
    for path, n in nodes:
        for ph in ("prepare", "start"):
            for a in n.get(ph) or ():
                if a[0] == "pub":
                    pubs.append((path, n, ph, a[1]))
    phases = [(path, n, ph) for path, n in nodes for ph in ("prepare", "start") if n.get(ph) is not None]
    if not pubs or not phases:
        return
    for _ in range(rng.randint(1, 3)):
        path, n, ph = rng.choice(phases)
        ppath, pn, pph, spec = rng.choice(pubs)
        if ppath == path:
            continue
        g.nw += 1
        w = ["wait", {"wid": f"w{g.nw}", "t": spec["t"], "name": final_name(pn, spec, pph), **({"ga": spec["ga"]} if spec.get("ga") else {})}]
        pos = rng.randint(0, min(1, len(n[ph])))
        n[ph].insert(pos, w)
        if model_timeline({"tree": tree})["finish"] is None:
            n[ph].remove(w)
            continue
        if rng.random() < 0.35:
            # ... and a component elsewhere waits for the very same resource but loses
            # patience (usually before it is published): its going away must not disturb
            # the one that keeps waiting
            others = [(p3, n3, ph3) for p3, n3, ph3 in phases if p3 not in (path, ppath)]
            if others:
                p3, n3, ph3 = rng.choice(others)
                g.nw += 1
                w3 = ["wait", {"wid": f"w{g.nw}", "t": spec["t"], "name": final_name(pn, spec, pph), "giveup": rng.choice((0.25, 0.5, 1.0)), **({"ga": spec["ga"]} if spec.get("ga") else {})}]
                n3[ph3].insert(0, w3)
                if model_timeline({"tree": tree})["finish"] is None:
                    n3[ph3].remove(w3)


def _alias_trap(g: "G", tree: dict, rng: random.Random) -> None:
    """A `kind/name` component publishes T under the default name in start() (so it is
    registered as (T, name)) and then asks for (T, "default"), which *another* component
    publishes: it must wait for - and get - that other object."""
    nodes = list(walk(tree))
    cands = []
    for path, n in nodes:
        if "/" not in n.get("alias", "") or n.get("start") is None:
            continue
        for i, a in enumerate(n["start"]):
            if a[0] == "pub" and a[1].get("name", "default") == "default" and not a[1].get("fac") and a[1].get("t2") is None and not a[1].get("ga"):
                cands.append((path, n, i, a[1]))
    if not cands:
        return
    path, n, i, spec = rng.choice(cands)
    others = [(p, m, ph) for p, m in nodes if p != path for ph in ("prepare", "start") if m.get(ph) is not None and (ph == "prepare" or "/" not in m.get("alias", ""))]
    if not others:
        return
    p2, m2, ph2 = rng.choice(others)
    g.nw += 1
    pub2 = ["pub", {"rid": f"r{spec['rid'][1:]}x", "t": spec["t"], "name": "default"}]
    w = ["wait", {"wid": f"w{g.nw}", "t": spec["t"], "name": "default"}]
    m2[ph2].insert(rng.randint(0, len(m2[ph2])), pub2)
    n["start"].insert(i + 1, w)
    if model_timeline({"tree": tree})["finish"] is None:
        m2[ph2].remove(pub2)
        n["start"].remove(w)


def _wide_tree(g: "G", rng: random.Random, fail: bool = False) -> dict:
    """A root with 33-44 direct children (more than any plausible batch or pool size): one
    early child - or nearly all of them - waits for a resource that one of the last children
    publishes, so everything only completes if really *all* children are started
    concurrently.  With `fail`, that last child fails instead of publishing."""
    many = rng.random() < 0.5
    n = rng.randint(33, 44)
    root: dict[str, Any] = {"alias": "", "slot": g.slots.pop(), "prepare": None, "start": [], "children": []}
    if many:
        k = rng.randint(32, n - 1)
        waiters = set(range(k))
        pub_idx = rng.randint(k, n - 1)
    else:
        pub_idx = rng.randint(n - 4, n - 1)
        waiters = {rng.randint(0, 3)}
    for i in range(n):
        has_p = rng.random() < 0.3
        c: dict[str, Any] = {
            "alias": f"w{i}",
            "slot": g.slots.pop(),
            "prepare": [] if has_p else None,
            "start": [],
            "children": [],
            "hard": {"tf": "class", "kw": {}},
            "ext": None,
        }
        if rng.random() < 0.3 and not many:
            c["start"].append(rpause(rng, 0.5))
        if i == pub_idx:
            c["start"].append(["p", rng.choice((0, 1, 2)), rng.choice((0.0, 0.5, 1.0))])
            if fail:
                c["start"].append(["fail", rng.choice(("SimError", "SimLookup"))])
            else:
                c["start"].append(["pub", {"rid": "r1", "t": 0, "name": "wide"}])
        if i in waiters:
            g.nw += 1
            c["start"].insert(0, ["wait", {"wid": f"w{g.nw}", "t": 0, "name": "wide"}])
        root["children"].append(c)
    return root


def _deep_tree(g: "G", rng: random.Random) -> dict:
    """A chain of 8-13 components, each the only child of the one before; the innermost one
    stalls (usually beyond the timeout)."""
    depth = rng.randint(8, 13)
    root: dict[str, Any] = {"alias": "", "slot": g.slots.pop(), "prepare": [] if rng.random() < 0.5 else None, "start": [], "children": []}
    cur = root
    for i in range(depth):
        c: dict[str, Any] = {
            "alias": f"d{i}",
            "slot": g.slots.pop(),
            "prepare": [rpause(rng, 0.3)] if rng.random() < 0.4 else None,
            "start": [],
            "children": [],
            "hard": {"tf": "class", "kw": {}},
            "ext": None,
        }
        cur["children"].append(c)
        cur = c
    cur["start"].append(["p", 0, rng.choice((0.5, 2.0, 5.0))])
    return root


def _add_subs(plan: dict, nodes: list, rng: random.Random, may_fail: bool) -> None:
    """Nested start_component() calls inside phases.  At most one of them lets a failure
    out (and only in plans that have no other failure), the others complete in time or have
    their error swallowed by the component."""
    cands = [(p, n, ph) for p, n in nodes for ph in ("prepare", "start") if n.get(ph) is not None]
    if not cands:
        return
    for i in range(rng.choice((1, 1, 2))):
        p, n, ph = rng.choice(cands)
        acts = n[ph]
        if any(a[0] == "fail" for a in acts):
            continue
        spec: dict[str, Any] = {
            "sid": f"s{i}",
            "d": [rng.choice((0.0, 0.25, 0.5, 1.0)), rng.choice((0.0, 0.5, 1.0, 2.0)), rng.choice((0.0, 0.25, 1.0))],
            "kid": rng.random() < 0.7,
        }
        tm = rng.random()
        if tm < 0.5:
            spec["timeout"] = rng.choice((0.375, 0.75, 1.125, 1.625, 2.5, 5.0))
        elif tm < 0.6:
            spec["timeout"] = None
        if rng.random() < 0.5:
            spec["fail"] = rng.choice(("init", "prepare", "kid", "start"))
            if spec["fail"] == "kid":
                spec["kid"] = True
            spec["fcls"] = rng.choice(("SimError", "SimLookup", "SimTimeout"))
        m = sub_model(spec)
        pos = rng.randint(0, len(acts))
        if m["kind"] in ("fail", "timeout") and may_fail and i == 0 and rng.random() < 0.6:
            # (not at a tie between the nested start-up's end and its timeout: it may just as
            # well return there, and the acts cut off below - publications others wait for -
            # would then be missing for good)
            spec["raise"] = True
            acts.insert(pos, ["sub", spec])
            del acts[pos + 1 :]
            may_fail = False
        else:
            acts.insert(pos, ["sub", spec])
    F = model_timeline(expand_subs(plan)[0])["finish"]
    if plan.get("timeout") and F is not None and rng.random() < 0.5:
        plan["timeout"] = max(plan["timeout"], F + 1.0)


def _add_later_sub(plan: dict, nodes: list, rng: random.Random) -> None:
    """A service task started by a component runs a start-up of its own (with its own,
    usually too short, timeout) some time after the start-up that spawned it has ended."""
    cands = [(p, n, ph) for p, n in nodes for ph in ("prepare", "start") if n.get(ph) is not None and not any(a[0] == "fail" for a in n[ph])]
    if not cands:
        return
    p, n, ph = rng.choice(cands)
    spec: dict[str, Any] = {
        "sid": "v0",
        "delay": rng.choice((0.0, 0.25, 1.0)),
        "d": [rng.choice((0.5, 1.0, 2.0)), rng.choice((0.5, 1.0, 2.0)), rng.choice((0.0, 1.0))],
        "kid": rng.random() < 0.7,
        "timeout": rng.choice((0.375, 0.75, 1.125, 1.625, 2.5, 5.0)),
    }
    n[ph].insert(rng.randint(0, len(n[ph])), ["svc", {"name": "sv0", "delay": 0.0, "later_sub": spec}])
    if rng.random() < 0.7 and "timeout" not in plan:
        # a deadline of the spawning start-up that lies shortly after its end
        F = model_timeline(expand_subs(plan)[0])["finish"]
        if F is not None:
            plan["timeout"] = F + rng.choice((0.25, 0.5, 1.0))


def gen(rng: random.Random, tier: str, prop: str) -> dict:
    g = G(rng, tier, prop)
    backend = "asyncio" if rng.random() < 0.6 else "trio"
    special = rng.random()
    if prop in ("C05", "C07") and special < 0.05:
        # scale knobs: a very wide or a very deep tree
        if prop == "C07" and special < 0.02:
            tree = _deep_tree(g, rng)
            timeout: Any = rng.choice((0.25, 1.0, 3.0, 20))
        else:
            tree = _wide_tree(g, rng, fail=prop == "C07" and rng.random() < 0.5)
            timeout = rng.choice((None, 50))
        tree["root_kw"] = {}
        tree["root_tf"] = "class"
        return {
            "v": 1,
            "world": NAME,
            "property": prop,
            "backend": backend,
            "sched": {"policy": rng.choice(("uniform", "coin", "prio", "fifo")), "seed": rng.getrandbits(32)},
            "tree": tree,
            "timeout": timeout,
        }
    tree = g.skeleton(0, "")
    tree["root_kw"] = rkw(rng)
    tree["root_tf"] = pick(rng, {"class": 3, "ref": 1, "ep": 1})
    share_ext = None
    leaves_ = [c for c in tree["children"] if not c["children"]]
    if prop == "C14" and len(leaves_) >= 2 and rng.random() < 0.08:
        # two config-only children (type given by the alias) configured by ONE mapping object
        ca, cb_ = rng.sample(leaves_, 2)
        kw_ = rkw(rng)
        for c_ in (ca, cb_):
            c_["hard"] = None
            c_["ext"] = {"tf": None, "kw": copy.deepcopy(kw_)}
            c_["alias"] = "v" + node_cls(c_).__name__.lower()
            c_.pop("rb", None)
        share_ext = [ca["alias"], cb_["alias"]]
    g.fill(tree)
    if prop in ("C06", "C14") and rng.random() < 0.12:
        _alias_trap(g, tree, rng)
    if prop in ("C06", "C05") and rng.random() < (0.7 if prop == "C06" else 0.3):
        _forward_waits(g, tree, rng)
    plan: dict[str, Any] = {
        "v": 1,
        "world": NAME,
        "property": prop,
        "backend": backend,
        "sched": {"policy": rng.choice(("uniform", "coin", "prio", "fifo")), "seed": rng.getrandbits(32)},
        "tree": tree,
    }
    if share_ext:
        plan["share_ext"] = share_ext
    if rng.random() < 0.3:
        plan["nest"] = True
    nodes = list(walk(tree))
    want_sp_tail = False
    r = rng.random()
    fail_p = {"C07": 0.55, "C14": 0.2, "C05": 0.0, "C06": 0.0}.get(prop, 0.1)
    timeout_p = {"C07": 0.35, "C14": 0.1, "C05": 0.1, "C06": 0.1}.get(prop, 0.1)
    if r < fail_p:
        path, n = rng.choice(nodes)
        phases = ["creating"] + [ph for ph in ("prepare", "start") if n.get(ph) is not None]
        ph = rng.choice(phases)
        cls = rng.choice(("SimError", "SimLookup", "SimTimeout", "conflict", "group1", "fac_lookup"))
        if ph == "creating" and cls in ("conflict", "fac_lookup"):
            cls = "SimTimeout"
        if ph == "creating":
            n["fail_init"] = cls
            if path and n.get("hard") is not None and n["slot"] % 6 == 2 and rng.random() < 0.6:
                n["fail_init"] = "bad_kw"
        else:
            acts = n[ph]
            pos = rng.randint(0, len(acts))
            acts.insert(pos, ["fail", cls])
            del acts[pos + 1 :]
        plan["timeout"] = rng.choice((None, 20, 1000))
    elif r < fail_p + timeout_p:
        m = model_timeline(plan)
        F = m["finish"]
        mode = rng.random()
        if prop == "C07" and mode > 0.88 and F is not None:
            want_sp_tail = True
            plan["timeout"] = rng.choice((0.25, 1.0, 20))
        elif mode < 0.3:
            # a component waits for something nobody publishes
            cands = [(p, n, ph) for p, n in nodes for ph in ("prepare", "start") if n.get(ph) is not None]
            if cands:
                p, n, ph = rng.choice(cands)
                g.nw += 1
                n[ph].insert(rng.randint(0, len(n[ph])), ["wait", {"wid": f"w{g.nw}", "t": len(RT) - 1, "name": "never", "never": True}])
            plan["timeout"] = rng.choice((0.5, 1.0, 3.0, 10.0, 20))
        elif F is not None and F > 0:
            plan["timeout"] = rng.choice((F / 2, F - 0.25 if F > 0.25 else F / 2, F, F + 0.25, 2 * F))
        else:
            plan["timeout"] = rng.choice((0.25, 1.0, 20))
        if prop == "C07" and rng.random() < 0.15:
            cands = [(p, n, ph) for p, n in nodes for ph in ("prepare", "start") if n.get(ph) is not None]
            if cands:
                p, n, ph = rng.choice(cands)
                n[ph].insert(rng.randint(0, len(n[ph])), ["stall", rng.choice((0.5, 2.0, 5.0))])
    else:
        if rng.random() < 0.5:
            plan["timeout"] = rng.choice((None, 20, 1000))
    if prop in ("C05", "C07") and r >= fail_p + timeout_p and rng.random() < 0.08:
        # two components fail, often at the very same instant
        cands = [(p, n, ph) for p, n in nodes for ph in ("prepare", "start") if n.get(ph) is not None]
        if len(cands) >= 2:
            for p_, n_, ph_ in rng.sample(cands, 2):
                pos = rng.randint(0, min(1, len(n_[ph_])))
                n_[ph_].insert(pos, ["fail", rng.choice(("SimError", "SimLookup"))])
                del n_[ph_][pos + 1 :]
            plan.setdefault("timeout", rng.choice((None, 20, 1000)))
    if rng.random() < 0.08:
        cands = [(p, n, ph) for p, n in nodes for ph in ("prepare", "start") if n.get(ph) is not None]
        if cands:
            p_, n_, ph_ = rng.choice(cands)
            n_[ph_].insert(0, ["late_add"])
    if prop == "C14" and r >= fail_p + timeout_p and rng.random() < 0.08:
        kids = [c["alias"] for c in tree["children"] if c.get("hard")]
        plan["bad_child_cfg"] = {
            "alias": rng.choice(kids) if kids and rng.random() < 0.5 else "vkdecoy",
            "value": rng.choice((False, 0, "", [])),
        }
    if prop == "C07" and rng.random() < 0.3:
        _add_subs(plan, nodes, rng, may_fail=r >= fail_p)
    if prop == "C07" and rng.random() < 0.15:
        _add_later_sub(plan, nodes, rng)
    if prop in ("C05", "C06", "C12", "C14", "C02", "C07") and r >= fail_p + timeout_p and rng.random() < 0.15:
        # a component starts a (healthy) private sub-tree whose root publishes under "default"
        cands = [(p, n, ph) for p, n in nodes for ph in ("prepare", "start") if n.get(ph) is not None]
        have = {sp["sid"] for _p, _ph, sp in all_subs(plan)}
        sid = next((x for x in ("s0", "s1") if x not in have), None)
        if cands and sid:
            p_, n_, ph_ = rng.choice([c for c in cands if "/" in c[1].get("alias", "")] or cands)
            n_[ph_].insert(
                rng.randint(0, len(n_[ph_])),
                ["sub", {"sid": sid, "d": [rng.choice((0.0, 0.25)), rng.choice((0.0, 0.5)), rng.choice((0.0, 0.25))], "kid": rng.random() < 0.6, "timeout": None, "pub": True}],
            )
    if prop == "C05" and "twice" not in plan and r >= fail_p + timeout_p and rng.random() < 0.06:
        plan["twice"] = True
    if prop == "C05" and r >= fail_p + timeout_p and rng.random() < 0.08 and not any(
        a_[0] in ("svc", "tf", "sub", "childctx") or (a_[0] == "td" and a_[1].get("nested")) for _p, n_ in nodes for ph_ in ("prepare", "start") for a_ in n_.get(ph_) or ()
    ):
        plan["exit_cancel"] = True
    if prop in ("C06", "C05", "C18") and rng.random() < 0.15:
        plan["noisy_listener"] = rng.choice((0, 1, 2))
    if want_sp_tail and not any(a_[0] == "fail" for _p, n_ in nodes for ph_ in ("prepare", "start") for a_ in n_.get(ph_) or ()) and not any(
        sp_.get("raise") for _p, _ph, sp_ in all_subs(plan)
    ):
        # the root's start() ends with uninterruptible work and the timeout strikes in the
        # middle of it (nothing yields to the scheduler afterwards): the overrun is still
        # reported, as soon as that work has finished
        if tree.get("start") is None:
            tree["start"] = []
        dur_ = rng.choice((1.0, 2.0, 4.0))
        tree["start"].append(["sp", dur_])
        F2 = model_timeline(expand_subs(plan)[0])["finish"]
        if F2 is not None and F2 - dur_ / 2 > 0:
            plan["timeout"] = F2 - dur_ / 2
            plan["sp_tail"] = True
        else:
            tree["start"].pop()
    if prop == "C12" and rng.random() < 0.25:
        plan["ccprobe"] = True
    if prop == "C14" and "outer_cancel" not in plan and rng.random() < 0.15:
        plan["side"] = True
        if rng.random() < 0.5:
            plan["tweak"] = True
        cands_ = [(p_, n_) for p_, n_ in nodes if "/" in n_.get("alias", "") and n_.get("prepare") is not None and not any(a_[0] == "fail" for a_ in n_["prepare"])]
        if cands_:
            p_, n_ = rng.choice(cands_)
            n_["prepare"].append(["helper_pub", {}])
    if prop == "C07" and "twice" not in plan and rng.random() < 0.08:
        # the very same configuration object is used for a second attempt (a retry)
        plan["twice"] = True
    if prop == "C14":
        if rng.random() < 0.35:
            plan["twice"] = True
        if rng.random() < 0.1 and "timeout" not in plan:
            plan["outer_cancel"] = rng.choice((0.25, 1.0, 2.0))
    return plan


SIMPLEST = {"root_tf": "class"}


def valid_plan(plan: dict, orig: dict | None = None) -> bool:
    """Is this (shrunk) plan still one whose expectations mean anything?  Every component
    needs a class of its own, sibling aliases are unique, and if the original plan could
    complete (its dependencies were satisfiable) the shrunk one can too - otherwise waiting
    forever would simply be the correct behaviour of the shrunk plan."""
    try:
        nodes = list(walk(plan["tree"]))
        slots = [n["slot"] for _p, n in nodes]
        if len(set(slots)) != len(slots) or not all(isinstance(x, int) and 0 <= x < compreg.NSLOTS for x in slots):
            return False
        for _p, n in nodes:
            al = [c["alias"] for c in n.get("children", ())]
            if len(set(al)) != len(al):
                return False
        if orig is not None and model_timeline(expand_subs(orig)[0])["finish"] is not None:
            if model_timeline(expand_subs(plan)[0])["finish"] is None:
                return False
        return True
    except Exception:  # noqa: BLE001
        return False
