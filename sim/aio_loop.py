"""Virtual-time asyncio event loop owned by the simulator.

Real: asyncio Task/Future/Handle machinery, BaseEventLoop.call_soon/run_forever.
Stub: clock (virtual, discrete-event), selector/self-pipe (none), signal table.

FIFO order of ready handles is preserved exactly (every real asyncio loop honours it),
so every execution produced here is one stock asyncio would produce for the same sleep
lengths.
"""
from __future__ import annotations

import asyncio
import heapq
from asyncio import events


class SimDeadlock(BaseException):
    """Nothing is runnable and no timer is pending while the main task is not done."""


class SimStepLimit(BaseException):
    """The per-run step cap was exceeded (harness budget, never a violation)."""


def _is_spin(handle) -> bool:
    # anyio's asyncio CancelScope re-schedules _deliver_cancellation with call_soon for
    # as long as a cancelled scope still has tasks.  On a real loop that is a busy spin
    # during which wall time passes; under a virtual clock it must not freeze time.
    cb = handle._callback
    return getattr(cb, "__name__", "") == "_deliver_cancellation"


class SimEventLoop(asyncio.BaseEventLoop):
    def __init__(self, sim=None, step_cap: int = 200_000) -> None:
        super().__init__()
        self._vtime = 0.0
        self._timers: list = []  # (when, seq, TimerHandle)
        self._tseq = 0
        self.sim = sim
        self.step = 0
        self.step_cap = step_cap
        self.signal_table: dict[int, tuple] = {}
        self.injections: dict[int, list] = {}
        self.on_step = None  # callable(step, label) or None
        self.dead = False
        self.spin_skips = 0
        self._last_pass_only_spin = False

    # ---- clock -----------------------------------------------------------------
    def time(self) -> float:
        return self._vtime

    def stall(self, dt: float) -> None:
        """Advance the clock during a step (a blocking call / stalled process)."""
        self._vtime += dt

    # ---- timers ----------------------------------------------------------------
    def call_at(self, when, callback, *args, context=None):
        if when is None:
            raise TypeError("when cannot be None")
        self._check_closed()
        timer = events.TimerHandle(when, callback, args, self, context)
        self._tseq += 1
        heapq.heappush(self._timers, (when, self._tseq, timer))
        timer._scheduled = True
        return timer

    def _timer_handle_cancelled(self, handle) -> None:
        pass

    # ---- no I/O, no threads ------------------------------------------------------
    def _process_events(self, event_list) -> None:  # pragma: no cover
        pass

    def _write_to_self(self) -> None:
        pass

    def call_soon_threadsafe(self, callback, *args, context=None):
        return self.call_soon(callback, *args, context=context)

    # ---- signals -----------------------------------------------------------------
    def add_signal_handler(self, sig, callback, *args):
        self.signal_table[int(sig)] = (callback, args)

    def remove_signal_handler(self, sig):
        return self.signal_table.pop(int(sig), None) is not None

    def deliver_signal(self, sig) -> bool:
        """What the real loop does after reading the self-pipe: call_soon(handler)."""
        entry = self.signal_table.get(int(sig))
        if entry is None:
            return False
        callback, args = entry
        self.call_soon(callback, *args)
        return True

    # ---- the scheduler -----------------------------------------------------------
    def inject_at_step(self, n: int, fn) -> None:
        self.injections.setdefault(n, []).append(fn)

    def _label(self, handle) -> str:
        cb = handle._callback
        owner = getattr(cb, "__self__", None)
        if isinstance(owner, asyncio.Task):
            return owner.get_name()
        return "cb:" + getattr(cb, "__qualname__", getattr(cb, "__name__", "?"))

    def _run_once(self) -> None:
        timers = self._timers
        while timers and timers[0][2]._cancelled:
            _, _, h = heapq.heappop(timers)
            h._scheduled = False

        ready = self._ready
        busy = False
        live = 0
        for h in ready:
            if not h._cancelled:
                live += 1
                if not _is_spin(h):
                    busy = True
                    break

        # A cancellation spinner may still make progress (cancel a task whose waiter was
        # already done on the previous pass), so it is always run once; only when a whole
        # pass consisted of spinners and all they did was re-schedule themselves is the
        # loop "idle" in the sense that nothing but the passage of time can change it.
        idle = (live == 0) or (not busy and self._last_pass_only_spin)
        self._last_pass_only_spin = live > 0 and not busy
        if idle and not self._stopping:
            if timers:
                if live:
                    self.spin_skips += 1
                when = timers[0][0]
                if when > self._vtime:
                    self._vtime = when
                self._last_pass_only_spin = False
            else:
                # nothing but (possibly) cancellation spinners and no timer: a real loop
                # would idle or spin forever
                self.dead = True
                raise SimDeadlock(
                    f"event loop idle with no timers at t={self._vtime} step={self.step}"
                )

        now = self._vtime
        while timers and timers[0][0] <= now:
            _, _, h = heapq.heappop(timers)
            h._scheduled = False
            if not h._cancelled:
                ready.append(h)

        ntodo = len(ready)
        for _ in range(ntodo):
            handle = ready.popleft()
            if handle._cancelled:
                continue
            if not _is_spin(handle):
                self.step += 1
                step = self.step
                if step > self.step_cap:
                    raise SimStepLimit(f"step cap {self.step_cap} exceeded")
                if self.on_step is not None:
                    self.on_step(step, self._label(handle))
                inj = self.injections.pop(step, None)
                if inj:
                    for fn in inj:
                        fn()
            handle._run()
        handle = None
