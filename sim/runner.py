"""Seeded batch runner: VERIF_SEED -> run seeds -> plans -> executions -> merged summary."""
from __future__ import annotations

import faulthandler
import gc
import hashlib
import importlib
import multiprocessing
import os
import random
import sys
import time
import traceback
from collections import Counter
from concurrent.futures import ProcessPoolExecutor, as_completed
from typing import Any

WORLD_OF = {
    "C01": "ctxlife",
    "C12": [("ctxlife", 0.85), ("components", 0.15)],
    "C13": "ctxlife",
    "C02": [("resources", 0.85), ("components", 0.15)],
    "C03": [("resources", 0.93), ("components", 0.07)],
    "C04": "resources",
    "C18": [("resources", 0.88), ("components", 0.12)],
    "C19": [("resources", 0.94), ("components", 0.06)],
    "C05": "components",
    "C06": "components",
    "C07": "components",
    "C14": "components",
    "C08": "tasks",
    "C09": [("tasks", 0.92), ("components", 0.08)],
    "C10": [("events", 0.93), ("resources", 0.07)],
    "C11": [("events", 0.93), ("components", 0.07)],
    "C15": "apprunner",
}
GEN_VERSION = 1


def world(prop: str, name: str | None = None):
    w = WORLD_OF[prop]
    if name is None:
        name = w if isinstance(w, str) else w[0][0]
    return importlib.import_module(f"sim.worlds.{name}")


def worlds_of(prop: str) -> list[str]:
    w = WORLD_OF[prop]
    return [w] if isinstance(w, str) else [x[0] for x in w]


def run_seed(verif_seed: int, prop: str, tier: str, index: int) -> int:
    h = hashlib.sha256(f"{verif_seed}|{prop}|{tier}|{index}|{GEN_VERSION}".encode()).digest()
    return int.from_bytes(h[:8], "big")


def make_plan(verif_seed: int, prop: str, tier: str, index: int) -> dict:
    rs = run_seed(verif_seed, prop, tier, index)
    rng = random.Random(rs)
    wspec = WORLD_OF[prop]
    if isinstance(wspec, str):
        w = world(prop)
    else:
        r = rng.random() * sum(x[1] for x in wspec)
        name = wspec[-1][0]
        for nm, wt in wspec:
            r -= wt
            if r <= 0:
                name = nm
                break
        w = world(prop, name)
    plan = w.gen(rng, tier, prop)
    plan["property"] = prop
    plan["_prov"] = {"verif_seed": verif_seed, "index": index, "tier": tier, "run_seed": rs, "gen": GEN_VERSION}
    return plan


_gc_ready = False
_gc_runs = 0


def warmup() -> None:
    """Initialise both backends once with a program that does not touch asphalt, then move
    everything to the GC's permanent generation.  Forked workers inherit the warm state."""
    global _gc_ready
    import anyio
    import anyio._backends._asyncio  # noqa: F401
    import anyio._backends._trio  # noqa: F401

    from .core import Sim, run_sim

    for name in set(x if isinstance(x, str) else None for x in WORLD_OF.values()) | {"components", "ctxlife", "resources"}:
        if name:
            importlib.import_module(f"sim.worlds.{name}")

    async def main(sim: Any) -> None:
        async with anyio.create_task_group() as tg:
            tg.start_soon(anyio.sleep, 1)
            with anyio.move_on_after(0.5):
                await anyio.sleep(2)
        e = anyio.Event()
        e.set()
        await e.wait()

    for be in ("asyncio", "trio"):
        run_sim(Sim({"backend": be, "sched": {"policy": "uniform", "seed": 1}}), main)
    gc.disable()
    gc.collect()
    gc.freeze()
    _gc_ready = True



def execute(plan: dict, **kw: Any) -> dict:
    """Run one plan.  The cyclic garbage collector never runs *inside* a run (finalizers of
    garbage left by earlier runs - coroutines, async generators, tasks - would add scheduler
    steps at allocation-dependent points): it is disabled, everything that exists after
    import is frozen, and the little that a run leaves behind is collected before the next."""
    global _gc_ready, _gc_runs
    w = importlib.import_module(f"sim.worlds.{plan['world']}")
    if not _gc_ready:
        import anyio._backends._asyncio  # noqa: F401
        import anyio._backends._trio  # noqa: F401

        gc.disable()
        _gc_ready = True
    gc.collect()
    _gc_runs += 1
    if _gc_runs in (1, 2, 4, 8, 16) or _gc_runs % 64 == 0:
        # modules and caches are still being created lazily during the first runs: keep
        # moving what survived a full collection to the permanent generation so that the
        # per-run collection only ever looks at the previous run's leftovers
        gc.freeze()
    from . import core

    del core.LIVELOCKS[:]
    try:
        res = w.execute(plan, **kw)
    except Exception:
        if not core.LIVELOCKS:
            raise
        res = {
            "violations": [], "faults": {}, "probes": {}, "sig": "livelock", "final": "livelock", "nontrivial": True,
            "steps": 0, "vtime": 0.0, "deadlock": False, "step_limit": False, "digest": "livelock", "trace": [],
        }
    if res.get("step_limit"):
        # bounded liveness: the generated workloads need a few hundred scheduler steps
        # (max observed on the unchanged tree: ~400); one that is still scheduling after
        # STEP_CAP steps is spinning (e.g. a wait that returns at once and is retried forever)
        res["violations"].append(
            {
                "rule": f"{plan['property']}.livelock",
                "key": "step_limit",
                "msg": f"the run was still scheduling after {core.STEP_CAP} steps: something retries forever without making progress",
            }
        )
    if core.LIVELOCKS:
        # a step of the run never returned to the scheduler (see core._LivelockGuard)
        ll = core.LIVELOCKS[0]
        res["crashed"] = res.get("crashed") or f"livelock at step {ll['step']}"
        res["violations"].append(
            {
                "rule": f"{plan['property']}.livelock",
                "key": "no_progress",
                "msg": f"a single scheduler step burnt >= {core.LIVELOCK_CPU_S}s of CPU without returning "
                f"(step {ll['step']}): the run never terminates",
            }
        )
    return res


def relevant(viol: list[dict], prop: str) -> list[dict]:
    return [x for x in viol if x["rule"].startswith(prop + ".")]


def _chunk(args: tuple) -> dict:
    prop, tier, verif_seed, start, stop, wall_budget = args
    faulthandler.enable()
    faulthandler.dump_traceback_later(wall_budget, exit=True)
    gc.disable()
    out: dict[str, Any] = {
        "runs": 0,
        "faults": Counter(),
        "probes": Counter(),
        "sigs": set(),
        "finals": set(),
        "nontrivial_sigs": set(),
        "steps": 0,
        "vtime": 0.0,
        "backend": Counter(),
        "viol": [],
        "viol_count": Counter(),
        "samples": [],
        "deadlocks": 0,
        "step_limits": 0,
        "errors": [],
        "other_rules": Counter(),
    }
    try:
        for index in range(start, stop):
            plan = make_plan(verif_seed, prop, tier, index)
            try:
                res = execute(plan)
            except BaseException as e:  # harness error, never a VIOLATION
                out["errors"].append(
                    {"index": index, "error": f"{type(e).__name__}: {e}", "tb": traceback.format_exc()[-1500:]}
                )
                if isinstance(e, (KeyboardInterrupt, SystemExit)) and len(out["errors"]) > 3:
                    break
                continue
            if res.get("crashed") and not any(x["rule"].startswith(prop + ".") for x in res["violations"]):
                out["errors"].append({"index": index, "error": "run crashed without a rule violation", "tb": res["crashed"]})
                continue
            out["runs"] += 1
            out["faults"].update(res["faults"])
            out["probes"].update(res["probes"])
            sig = (plan["backend"], res["sig"])
            out["sigs"].add(sig)
            out["finals"].add(res["final"])
            if res["nontrivial"]:
                out["nontrivial_sigs"].add(sig)
            out["steps"] += res["steps"]
            out["vtime"] += res["vtime"]
            out["backend"][plan["backend"]] += 1
            out["deadlocks"] += bool(res["deadlock"])
            out["step_limits"] += bool(res["step_limit"])
            for x in res["violations"]:
                if x["rule"].startswith(prop + "."):
                    k = (x["rule"], x["key"])
                    out["viol_count"][k] += 1
                    if out["viol_count"][k] <= 2:
                        out["viol"].append(
                            {"plan": plan, "rule": x["rule"], "key": x["key"], "msg": x["msg"], "chunk_start": start}
                        )
                else:
                    out["other_rules"][x["rule"]] += 1
            if len(out["samples"]) < 1 and res["nontrivial"]:
                out["samples"].append(plan)
    finally:
        faulthandler.cancel_dump_traceback_later()
    return out


def run_batch(
    prop: str,
    tier: str,
    verif_seed: int,
    n_runs: int,
    workers: int,
    *,
    start_index: int = 0,
    wall_budget: float = 600.0,
    deadline: float | None = None,
) -> dict:
    """Run indices [start_index, start_index+n_runs) across `workers` processes and merge in
    index order (so the result does not depend on the worker count)."""
    nchunks = max(1, min(n_runs, workers * 4))
    size = (n_runs + nchunks - 1) // nchunks
    jobs = []
    for c in range(nchunks):
        a = start_index + c * size
        b = min(start_index + n_runs, a + size)
        if a < b:
            jobs.append((prop, tier, verif_seed, a, b, wall_budget))
    merged: dict[str, Any] = {}
    results: dict[int, dict] = {}
    if workers <= 1:
        for j in jobs:
            results[j[3]] = _chunk(j)
    else:
        # every chunk runs in its own process forked from this (pristine) parent, so a
        # chunk's outcome is a function of its index range only: whatever process-global
        # state the code under test keeps can depend on earlier runs of the same chunk
        # at most, which is what replay preludes reproduce
        for j, r in fork_map(_chunk, jobs, workers, timeout=wall_budget + 60):
            results[j[3]] = r
    for start in sorted(results):
        merged = merge_into(merged, results[start])
    return merged


def fork_map(fn, jobs: list, workers: int, timeout: float = 900.0):
    """Run fn(job) for every job, each in a freshly forked child; yield (job, result)."""
    import pickle
    import select

    pending = list(jobs)
    running: dict[int, tuple] = {}  # fd -> (pid, job, chunks, t0)
    deadline_of: dict[int, float] = {}
    while pending or running:
        while pending and len(running) < workers:
            job = pending.pop(0)
            rfd, wfd = os.pipe()
            pid = os.fork()
            if pid == 0:
                try:
                    os.close(rfd)
                    try:
                        payload = pickle.dumps(("ok", fn(job)))
                    except BaseException as e:  # noqa: BLE001
                        payload = pickle.dumps(("err", f"{type(e).__name__}: {e}\n{traceback.format_exc()[-2000:]}"))
                    with os.fdopen(wfd, "wb") as f:
                        f.write(payload)
                finally:
                    os._exit(0)
            os.close(wfd)
            running[rfd] = (pid, job, [], time.monotonic())
        ready, _, _ = select.select(list(running), [], [], 1.0)
        now = time.monotonic()
        for fd in list(running):
            pid, job, chunks, t0 = running[fd]
            if fd in ready:
                data = os.read(fd, 1 << 20)
                if data:
                    chunks.append(data)
                    continue
                os.close(fd)
                os.waitpid(pid, 0)
                del running[fd]
                raw = b"".join(chunks)
                if not raw:
                    raise RuntimeError(f"worker for job {job[3:5] if isinstance(job, tuple) else job} died without a result")
                kind, val = pickle.loads(raw)
                if kind == "err":
                    raise RuntimeError(f"worker failed: {val}")
                yield job, val
            elif now - t0 > timeout:
                try:
                    os.kill(pid, 9)
                except OSError:
                    pass
                os.close(fd)
                os.waitpid(pid, 0)
                del running[fd]
                raise RuntimeError(f"worker exceeded wall budget {timeout}s")


def hermetic(fn, *args, timeout: float = 120.0):
    """Run fn(*args) in a child forked from this process and return its result."""
    for _job, res in fork_map(lambda a: fn(*a), [args], 1, timeout=timeout):
        return res
    raise RuntimeError("no result")


def execute_sequence(plans: list, **kw: Any) -> dict:
    """Execute plans one after another in this process; return the result of the last."""
    res: dict = {}
    for p in plans:
        res = execute(p, **kw)
    return res


def merge_into(merged: dict, r: dict) -> dict:
    if not merged:
        return r
    for k, val in r.items():
        if isinstance(val, Counter):
            merged[k].update(val)
        elif isinstance(val, set):
            merged[k] |= val
        elif isinstance(val, list):
            merged[k].extend(val)
        else:
            merged[k] += val
    return merged
