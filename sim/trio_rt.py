"""Seeded trio runtime: trio's own deterministic-scheduling seam + MockClock + Instrument.

Real: trio scheduler, nurseries, cancel scopes.  Stub: clock (MockClock, autojump 0).
Seeded: the order of every batch of runnable tasks (any permutation is legal on trio; trio
itself randomises it), through trio._core._run._r which trio consults for each batch.
"""
from __future__ import annotations

import hashlib
import random

import trio
import trio._core._run as _trun
from trio.testing import MockClock


class SimScheduler:
    """Stands in for trio._core._run._r (needs .shuffle and .random)."""

    def __init__(self, seed: int, policy: str, sim=None) -> None:
        self.rng = random.Random(seed)
        self.seed = seed
        self.policy = policy
        self.sim = sim
        self.epoch = 0
        self.decisions = 0
        self.change_steps: set[int] = set()
        if policy == "prio":
            # PCT-style: a few seeded priority-change points
            for _ in range(self.rng.randint(0, 3)):
                self.change_steps.add(self.rng.randint(1, 400))
        self._prio_cache: dict[tuple[int, str], bytes] = {}

    def _prio(self, name: str) -> bytes:
        key = (self.epoch, name)
        p = self._prio_cache.get(key)
        if p is None:
            p = hashlib.blake2b(
                f"{self.seed}:{self.epoch}:{name}".encode(), digest_size=8
            ).digest()
            self._prio_cache[key] = p
        return p

    def shuffle(self, batch: list) -> None:
        # batch arrives sorted by task creation counter; trio pops from the end
        n = len(batch)
        if n < 2:
            return
        self.decisions += 1
        pol = self.policy
        if pol == "uniform":
            self.rng.shuffle(batch)
        elif pol == "coin":
            if self.rng.random() < 0.5:
                batch.reverse()
        elif pol == "prio":
            if self.sim is not None and self.change_steps:
                step = self.sim.step
                hit = [s for s in self.change_steps if s <= step]
                if hit:
                    self.change_steps.difference_update(hit)
                    self.epoch += len(hit)
            batch.sort(key=lambda t: (self._prio(_norm(t.name)), t._counter))
        else:  # "fifo": oldest task first
            batch.reverse()

    def random(self) -> float:
        return self.rng.random()


def _norm(name: str) -> str:
    # task names may embed id()s; priorities must not depend on addresses
    out = []
    run = 0
    for ch in name:
        if ch in "0123456789abcdef":
            run += 1
        else:
            if run >= 6:
                del out[-run:]
                out.append("#")
            run = 0
        out.append(ch)
    if run >= 6:
        del out[-run:]
        out.append("#")
    return "".join(out)


class SimInstrument(trio.abc.Instrument):
    def __init__(self, sim) -> None:
        self.sim = sim

    def before_task_step(self, task) -> None:
        self.sim._trio_step(task)


class TrioPatch:
    """Context manager installing the scheduler into trio's seam for one run."""

    def __init__(self, scheduler: SimScheduler) -> None:
        self.scheduler = scheduler

    def __enter__(self):
        self._old = (_trun._ALLOW_DETERMINISTIC_SCHEDULING, _trun._r)
        _trun._ALLOW_DETERMINISTIC_SCHEDULING = True
        _trun._r = self.scheduler
        return self

    def __exit__(self, *exc):
        _trun._ALLOW_DETERMINISTIC_SCHEDULING, _trun._r = self._old
        return False


def _with_deadlock_detection(clock: MockClock) -> MockClock:
    """Make `clock` turn "every task blocked, no deadline anywhere" into SimDeadlock.

    With autojump_threshold=0 trio's run loop calls `clock._autojump()` whenever nothing is
    runnable; stock MockClock does nothing when there is no deadline to jump to, and the
    loop then spins forever (get_events(0), _autojump(), ...).  Nothing outside the
    simulation can wake a task (no real I/O, no threads; signals are injected by the
    simulator at task steps), so that state is a genuine deadlock.  The exception leaves
    trio.run() wrapped in TrioInternalError (see `deadlock_of`).  (MockClock is final, so
    the method is replaced on the instance.)"""
    import math

    import trio

    from .aio_loop import SimDeadlock

    orig = clock._autojump

    def _autojump() -> None:
        st = trio.lowlevel.current_statistics()
        if st.tasks_runnable == 0 and st.run_sync_soon_queue_size == 0 and st.seconds_to_next_deadline == math.inf:
            raise SimDeadlock("trio: all tasks blocked and no deadline")
        orig()

    clock._autojump = _autojump  # type: ignore[method-assign]
    return clock


def deadlock_of(exc: BaseException) -> bool:
    """Is `exc` the TrioInternalError that SimClock's deadlock detection turned into?"""
    from .aio_loop import SimDeadlock

    seen = 0
    e: BaseException | None = exc
    while e is not None and seen < 6:
        if isinstance(e, SimDeadlock):
            return True
        e = e.__cause__ or e.__context__
        seen += 1
    return False


def make_clock() -> MockClock:
    return _with_deadlock_detection(MockClock(autojump_threshold=0))
