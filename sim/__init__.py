"""Deterministic simulation harness for asphalt.

Importing this package decides which copy of asphalt is under test: /repo/src (the editable
install) by default, or the scratch copy named by VERIF_REPO_SRC (used only by the
sensitivity self-test).  It must happen before anything imports asphalt.
"""
import os as _os
import sys as _sys

_src = _os.environ.get("VERIF_REPO_SRC")
if _src:
    _sys.path.insert(0, _src)
_plug = _os.path.join(_os.path.dirname(_os.path.abspath(__file__)), "plugins")
if _plug not in _sys.path:
    _sys.path.insert(0, _plug)
