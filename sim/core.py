"""Simulator core: one Sim object per run; owns clock, step counter, trace, faults.

A run is a pure function of (plan, code under test).  Nothing here reads a real clock or
draws randomness outside the plan's recorded seeds.
"""
from __future__ import annotations

import asyncio
import hashlib
import json
import logging
import os
import re
import sys
import warnings
from collections import Counter
from typing import Any, Callable

# --- make the code under test importable from a scratch copy when asked to (mutants) ---
_src = os.environ.get("VERIF_REPO_SRC")
if _src:
    sys.path.insert(0, _src)
# entry points for generated components (real importlib.metadata path)
_plug = os.path.join(os.path.dirname(os.path.abspath(__file__)), "plugins")
if _plug not in sys.path:
    sys.path.insert(0, _plug)

import anyio  # noqa: E402
import anyio.lowlevel  # noqa: E402

from .aio_loop import SimDeadlock, SimEventLoop, SimStepLimit  # noqa: E402

warnings.filterwarnings("ignore", message="coroutine .* was never awaited")
warnings.filterwarnings("ignore", message="Queue full .* when trying to send dispatched event")
HORIZON = 1.0e7

# ---------------------------------------------------------------------------------------
# anyio's asyncio CancelScope keeps its tasks and child scopes in plain sets and iterates
# them when delivering cancellation: the order of task.cancel() calls (and therefore of the
# wake-ups) depends on object addresses.  Under simulation the order is owned by the
# simulator: insertion order, reversed, or a seeded permutation (all are orders the real set
# could produce).  Patched from /verif only; /repo and the installed anyio are untouched.
class _OrderedSet:
    __slots__ = ("_d",)
    mode = "ins"
    rng = None

    def __init__(self) -> None:
        self._d: dict = {}

    def add(self, x) -> None:
        self._d[x] = None

    def discard(self, x) -> None:
        self._d.pop(x, None)

    def remove(self, x) -> None:
        del self._d[x]

    def __contains__(self, x) -> bool:
        return x in self._d

    def __len__(self) -> int:
        return len(self._d)

    def __bool__(self) -> bool:
        return bool(self._d)

    def __iter__(self):
        items = list(self._d)
        mode = _OrderedSet.mode
        if len(items) > 1:
            if mode == "rev":
                items.reverse()
            elif mode == "shuf" and _OrderedSet.rng is not None:
                _OrderedSet.rng.shuffle(items)
        return iter(items)


def _patch_anyio_asyncio() -> None:
    from anyio._backends import _asyncio as _aa

    if getattr(_aa.CancelScope, "_sim_patched", False):
        return
    orig_init = _aa.CancelScope.__init__

    def __init__(self, *a, **kw):  # type: ignore[no-untyped-def]
        orig_init(self, *a, **kw)
        self._tasks = _OrderedSet()
        self._child_scopes = _OrderedSet()

    _aa.CancelScope.__init__ = __init__  # type: ignore[method-assign]
    _aa.CancelScope._sim_patched = True  # type: ignore[attr-defined]


_patch_anyio_asyncio()


STEP_CAP = 60_000

_HEX = re.compile(r"\b(?:0x)?[0-9a-f]{6,16}\b")
_TASKN = re.compile(r"Task-\d+")


def norm(s: str) -> str:
    return _TASKN.sub("Task-#", _HEX.sub("#", s))


class HarnessError(Exception):
    """A bug or budget problem in the harness itself; never reported as VIOLATION."""


class Abort(BaseException):
    """Raised inside the workload when the run is being abandoned."""


class Sim:
    def __init__(self, plan: dict, *, trace_steps: bool = True) -> None:
        self.plan = plan
        self.backend: str = plan.get("backend", "asyncio")
        sched = plan.get("sched") or {}
        self.sched_policy: str = sched.get("policy", "fifo")
        self.sched_seed: int = int(sched.get("seed", 0))
        self.trace: list[tuple] = []
        self.seq = 0
        self.step = 0
        self.steps_labels: list[str] = []
        self._last_label = None
        self.trace_steps = trace_steps
        self.faults: Counter = Counter()
        self.probes: Counter = Counter()
        self.injections: dict[int, list[Callable[[], None]]] = {}
        self.deadlock = False
        self.step_limit = False
        self.aborting = False
        self.end_step: int | None = None
        self.frozen = False  # set when a livelock was cut short: nothing after it is history
        self.livelock: int | None = None
        self.t0 = 0.0
        self.loop: SimEventLoop | None = None
        self.root_scope: anyio.CancelScope | None = None
        self.wall_skew = 0.0
        self.user: dict[str, Any] = {}
        self.step_cap = int(plan.get("step_cap", STEP_CAP))
        self.end_time = 0.0
        self.outcome: Any = None
        self.crashed: str | None = None

    # ------------------------------------------------------------------ observation
    def now(self) -> float:
        return anyio.current_time() - self.t0

    def task(self) -> str:
        if self.backend == "asyncio":
            try:
                t = asyncio.current_task()
            except RuntimeError:
                t = None
            return norm(t.get_name()) if t is not None else "-"
        import trio

        try:
            return norm(trio.lowlevel.current_task().name)
        except RuntimeError:
            return "-"

    def log(self, kind: str, /, **data: Any) -> int:
        if self.frozen:
            return self.seq
        self.seq += 1
        try:
            t = round(self.now(), 6)
        except Exception:
            t = -1.0
        # what the backend does after the workload has ended (closing leaked async generators,
        # shutting the loop down) takes a number of steps that is not part of the run: such
        # late observations are kept, stamped with the step at which the workload ended
        step = self.step if self.end_step is None else self.end_step
        self.trace.append((self.seq, step, t, self.task(), kind, data))
        return self.seq

    def fault(self, kind: str, n: int = 1) -> None:
        self.faults[kind] += n

    def probe(self, name: str, n: int = 1) -> None:
        self.probes[name] += n

    # ------------------------------------------------------------------ time
    async def pause(self, ticks: int = 0, dt: float = 0.0) -> None:
        for _ in range(ticks):
            await anyio.lowlevel.checkpoint()
        if dt > 0:
            await anyio.sleep(dt)

    def stall(self, dt: float) -> None:
        """Clock advances during a step (blocking call)."""
        if self.backend == "asyncio":
            assert self.loop is not None
            self.loop.stall(dt)
        else:
            import trio

            clock = trio.lowlevel.current_clock()
            clock.jump(dt)  # type: ignore[attr-defined]
        self.fault("stall")

    def wall_time(self) -> float:
        """Patched wall clock: epoch + virtual time + injected skew."""
        try:
            return 1_700_000_000.0 + self.now() + self.wall_skew
        except Exception:
            return 1_700_000_000.0 + self.wall_skew

    # ------------------------------------------------------------------ injection
    def inject_at_step(self, n: int, fn: Callable[[], None]) -> None:
        self.injections.setdefault(int(n), []).append(fn)

    def _on_step(self, step: int, label: str) -> None:
        self.step = step
        PROGRESS[0] += 1
        if self.trace_steps:
            if label != self._last_label:
                self._last_label = label
                self.steps_labels.append(label)

    def _aio_step(self, step: int, label: str) -> None:
        self._on_step(step, label)

    def _trio_step(self, task) -> None:
        self.step += 1
        PROGRESS[0] += 1
        step = self.step
        if step > self.step_cap and not self.step_limit:
            self.step_limit = True
            self.abort("step_limit")
        inj = self.injections.pop(step, None)
        if inj:
            for fn in inj:
                fn()
        if self.trace_steps:
            label = task.name
            if label != self._last_label:
                self._last_label = label
                self.steps_labels.append(label)

    def abort(self, why: str) -> None:
        self.aborting = True
        if why == "deadlock":
            self.deadlock = True
        if self.root_scope is not None:
            self.root_scope.cancel()

    # ------------------------------------------------------------------ signals
    def deliver_signal(self, sig: int) -> bool:
        """Deliver an OS signal through the backend's real delivery path (trio) or
        the stub's signal table (asyncio).  Returns False if no handler is installed."""
        import signal as _signal

        if self.backend == "asyncio":
            assert self.loop is not None
            ok = self.loop.deliver_signal(sig)
        else:
            handler = _signal.getsignal(sig)
            if (
                handler in (_signal.SIG_DFL, _signal.SIG_IGN, None)
                or (sig == _signal.SIGINT and handler is _signal.default_int_handler)
                or getattr(handler, "_verif_base", False)
            ):
                ok = False
            else:
                _signal.raise_signal(sig)
                ok = True
        if ok:
            self.fault("signal")
        return ok

    # ------------------------------------------------------------------ digest
    def signature(self) -> str:
        """Interleaving signature: workload-visible task-switch sequence."""
        h = hashlib.blake2b(digest_size=8)
        for lab in self.steps_labels:
            n = norm(lab)
            if n.startswith("cb:") or n.startswith("<") or n.startswith("h:"):
                continue
            h.update(n.encode())
            h.update(b"|")
        return h.hexdigest()

    def digest(self) -> str:
        h = hashlib.sha256()
        for rec in self.trace:
            h.update(json.dumps(_nrm(rec), sort_keys=True).encode())
            h.update(b"\n")
        for lab in self.steps_labels:
            h.update(norm(lab).encode())
            h.update(b";")
        return h.hexdigest()

    def dump_trace(self) -> list:
        return [_nrm(rec) for rec in self.trace]


def _nrm(o: Any) -> Any:
    """JSON-able copy with addresses / task counters normalised in strings only."""
    if isinstance(o, str):
        return norm(o)
    if isinstance(o, (bool, int, float)) or o is None:
        return o
    if isinstance(o, dict):
        return {norm(str(k)): _nrm(v) for k, v in o.items()}
    if isinstance(o, (list, tuple)):
        return [_nrm(v) for v in o]
    return _jd(o)


def _jd(o: Any) -> Any:
    if isinstance(o, (set, frozenset)):
        return sorted(map(str, o))
    if isinstance(o, BaseException):
        return f"<{type(o).__name__}>"
    if isinstance(o, type):
        return o.__name__
    return norm(repr(o))


def _quiet_unraisable(unraisable: Any) -> None:
    """A run that was cut short (deadlock, livelock, crashed backend) leaves suspended
    coroutines and half-open nurseries behind; their destructors complain on stderr when
    the wreck is freed.  That is noise from an abandoned simulation, not a result."""


sys.unraisablehook = _quiet_unraisable


# ---------------------------------------------------------------------- livelock watchdog
# The step cap bounds runs that keep scheduling; it cannot bound a run that never returns
# to the scheduler (an endless loop *inside* one step, e.g. the standard library walking a
# cyclic __context__ chain that the code under test created).  A CPU-time interval timer
# (ITIMER_VIRTUAL: it only advances while this process executes, so a stalled machine can
# not trip it) fires every LIVELOCK_CPU_S seconds of CPU; two consecutive ticks without a
# single scheduler step in between mean one step has burnt >= LIVELOCK_CPU_S of CPU (a
# normal step takes microseconds) and the run is cut short as a livelock.
PROGRESS = [0]
LIVELOCKS: list[dict] = []
LIVELOCK_CPU_S = float(os.environ.get("VERIF_LIVELOCK_CPU_S", "3"))


class SimLivelock(KeyboardInterrupt):
    """Raised inside the stuck step (KeyboardInterrupt: asyncio lets it through)."""


class _LivelockGuard:
    def __init__(self, sim: "Sim") -> None:
        self.sim = sim
        self.last = -1
        self.fired = 0

    def _tick(self, signum: int, frame: Any) -> None:
        # (on trio the arrival of the timer signal itself wakes the loop for a step or two)
        if PROGRESS[0] - self.last > 4 or self.last < 0:
            self.last = PROGRESS[0]
            return
        self.fired += 1
        sim = self.sim
        if sim.livelock is None:
            sim.livelock = sim.step
            sim.trace_steps = False
            sim.log("livelock", step=sim.step)
            sim.frozen = True
            sim.aborting = True
        raise SimLivelock(f"no scheduler step for {LIVELOCK_CPU_S}s of CPU at step {sim.step}")

    def __enter__(self) -> "_LivelockGuard":
        import signal as _s

        self._old = _s.signal(_s.SIGVTALRM, self._tick)
        _s.setitimer(_s.ITIMER_VIRTUAL, LIVELOCK_CPU_S, LIVELOCK_CPU_S)
        return self

    def __exit__(self, *a: Any) -> None:
        import signal as _s

        _s.setitimer(_s.ITIMER_VIRTUAL, 0, 0)
        _s.signal(_s.SIGVTALRM, self._old)


# ---------------------------------------------------------------------- running a world
def run_sim(sim: Sim, main: Callable[[Sim], Any]) -> None:
    """Run `main(sim)` (async) on the backend chosen by the plan under the simulator.

    `main` must catch everything the system under test may raise; an exception escaping
    it is a harness error.  Deadlock (nothing runnable, no timer but the horizon
    watchdog) and step-limit are recorded on `sim`, never raised as violations here.
    """

    async def harness_main() -> None:
        sim.t0 = anyio.current_time()
        try:
            async with anyio.create_task_group() as tg:
                sim.root_scope = tg.cancel_scope

                async def watchdog() -> None:
                    await anyio.sleep(HORIZON)
                    sim.log("deadlock")
                    sim.abort("deadlock")

                tg.start_soon(watchdog, name="h:watchdog")
                try:
                    await main(sim)
                finally:
                    sim.end_time = anyio.current_time() - sim.t0
                    # what the backend does after the workload has ended (shutting down
                    # leaked async generators, cancelling the watchdog) is not part of the run
                    sim.trace_steps = False
                    sim.end_step = sim.step
                tg.cancel_scope.cancel()
        except Abort:
            pass

    logging.getLogger("asyncio").setLevel(logging.CRITICAL)
    _al = logging.getLogger("asphalt")
    if not _al.handlers:
        _al.addHandler(logging.NullHandler())
        _al.propagate = False
    with warnings.catch_warnings():
        warnings.simplefilter("ignore", ResourceWarning)
        with backend_seam(sim) as (backend, options), _LivelockGuard(sim):
            try:
                anyio.run(harness_main, backend=backend, backend_options=options)
                if sim.livelock is not None:  # the interrupt was swallowed further up
                    LIVELOCKS.append({"step": sim.livelock, "exc": None})
                    sim.crashed = f"livelock at step {sim.livelock}"
            except SimDeadlock:
                sim.deadlock = True
                sim.aborting = True
            except SimStepLimit:
                sim.step_limit = True
                sim.aborting = True
            except BaseException as e:  # noqa: BLE001
                from .trio_rt import deadlock_of

                if deadlock_of(e):
                    sim.deadlock = True
                    sim.aborting = True
                elif sim.livelock is not None:
                    # cut short by the livelock watchdog: a violation of the property under
                    # check (reported by runner.execute as <prop>.livelock), whatever
                    # exception the interrupted backend turned it into
                    LIVELOCKS.append({"step": sim.livelock, "exc": type(e).__name__})
                    sim.crashed = f"livelock at step {sim.livelock}"
                elif isinstance(e, Exception):
                    # the run fell apart (e.g. the code under test let a context be entered
                    # twice and the backend's bookkeeping broke).  The oracle still judges the
                    # history recorded so far; a crash without any rule violation is reported
                    # as a harness error by the runner, never as a violation.
                    import traceback as _tb

                    sim.crashed = f"{type(e).__name__}: {e} :: {_tb.format_exc()[-600:]}"
                    sim.log("run_crashed", exc=f"{type(e).__name__}: {str(e)[:120]}")
                else:
                    raise


class backend_seam:
    """Context manager yielding (backend, backend_options) that put an anyio.run() call -
    ours or the one inside asphalt's run_application() - under the simulator."""

    def __init__(self, sim: Sim) -> None:
        self.sim = sim
        self._patch: Any = None

    def __enter__(self) -> tuple[str, dict]:
        sim = self.sim
        if sim.backend == "asyncio":
            import random as _random

            _OrderedSet.mode = {"fifo": "ins", "coin": "rev", "uniform": "shuf", "prio": "shuf"}.get(
                sim.sched_policy, "ins"
            )
            _OrderedSet.rng = _random.Random(sim.sched_seed)

            def factory() -> SimEventLoop:
                loop = SimEventLoop(sim, step_cap=sim.step_cap)
                loop.injections = sim.injections
                loop.on_step = sim._aio_step
                sim.loop = loop
                return loop

            return "asyncio", {"loop_factory": factory}
        if sim.backend == "trio":
            from .trio_rt import SimInstrument, SimScheduler, TrioPatch, make_clock

            sched = SimScheduler(sim.sched_seed, sim.sched_policy, sim)
            sim.user["_sched"] = sched
            self._patch = TrioPatch(sched)
            self._patch.__enter__()
            return "trio", {"clock": make_clock(), "instruments": [SimInstrument(sim)]}
        raise HarnessError(f"unknown backend {sim.backend!r}")

    def __exit__(self, *exc: Any) -> bool:
        sim = self.sim
        if self._patch is not None:
            self._patch.__exit__(*exc)
        if sim.loop is not None:
            sim.step = sim.loop.step
            if not sim.loop.is_closed():
                try:
                    sim.loop.close()
                except Exception:
                    pass
        return False
