"""Plan minimisation: greedy delta-debugging over the JSON plan tree.

A candidate is kept iff `still_fails(candidate)` (same rule id + key fires).  Worlds make
plans closed under deletion (dangling references are no-ops or repaired by the world's
normalize()), so any sub-plan is executable.
"""
from __future__ import annotations

import copy
import time
from typing import Any, Callable, Iterator

Path = tuple


def _walk(node: Any, path: Path = ()) -> Iterator[tuple[Path, Any]]:
    yield path, node
    if isinstance(node, dict):
        for k in list(node.keys()):
            yield from _walk(node[k], path + (k,))
    elif isinstance(node, list):
        for i, v in enumerate(node):
            yield from _walk(v, path + (i,))


def _get(plan: Any, path: Path) -> Any:
    for p in path:
        plan = plan[p]
    return plan


def _set(plan: Any, path: Path, value: Any) -> None:
    for p in path[:-1]:
        plan = plan[p]
    plan[path[-1]] = value


def shrink(
    plan: dict,
    still_fails: Callable[[dict], bool],
    *,
    max_runs: int = 400,
    max_s: float = 30.0,
    frozen: tuple[str, ...] = ("backend", "sched", "world", "property", "step_cap", "v"),
    simplest: dict[str, Any] | None = None,
) -> tuple[dict, int]:
    """Return (minimised plan, candidate runs used)."""
    t_end = time.monotonic() + max_s
    runs = 0
    best = copy.deepcopy(plan)
    simplest = simplest or {}

    def attempt(cand: dict) -> bool:
        nonlocal runs, best
        if runs >= max_runs or time.monotonic() > t_end:
            return False
        runs += 1
        try:
            ok = still_fails(cand)
        except Exception:
            ok = False
        if ok:
            best = cand
        return ok

    def out_of_budget() -> bool:
        return runs >= max_runs or time.monotonic() > t_end

    progress = True
    while progress and not out_of_budget():
        progress = False
        # 1. delete list chunks, longest lists first
        lists = [
            (p, len(n))
            for p, n in _walk(best)
            if isinstance(n, list)
            and n
            and not (p and (p[0] in frozen or str(p[0]).startswith("_")))
            and not isinstance(n[0], str)  # ["op", args...] tuples are atoms
        ]
        lists.sort(key=lambda x: -x[1])
        for path, _ in lists:
            try:
                cur = _get(best, path)
            except (KeyError, IndexError, TypeError):
                continue
            if not isinstance(cur, list):
                continue
            n = len(cur)
            chunk = max(1, n // 2)
            while chunk >= 1 and not out_of_budget():
                i = 0
                while i < len(_get(best, path)) and not out_of_budget():
                    cand = copy.deepcopy(best)
                    lst = _get(cand, path)
                    del lst[i : i + chunk]
                    if attempt(cand):
                        progress = True
                    else:
                        i += chunk
                if chunk == 1:
                    break
                chunk //= 2
        # 2. simplify scalars
        for path, node in list(_walk(best)):
            if out_of_budget():
                break
            if not path or path[0] in frozen or str(path[0]).startswith("_"):
                continue
            key = path[-1]
            try:
                cur = _get(best, path)
            except (KeyError, IndexError, TypeError):
                continue
            cands: list[Any] = []
            if isinstance(key, str) and key in simplest and cur != simplest[key]:
                cands.append(simplest[key])
            elif isinstance(cur, bool):
                if cur:
                    cands.append(False)
            elif isinstance(cur, int):
                if cur != 0:
                    cands.append(0)
                    if abs(cur) > 1:
                        cands.append(cur // 2)
                    if cur > 1:
                        cands.append(cur - 1)
            elif isinstance(cur, float):
                if cur != 0.0:
                    cands.append(0.0)
            elif isinstance(cur, dict) and not cur:
                continue
            for c in cands:
                cand = copy.deepcopy(best)
                _set(cand, path, c)
                if attempt(cand):
                    progress = True
                    break
    return best, runs
