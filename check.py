#!/venv/bin/python
"""check.py <property> [--tier quick|thorough] — seeded deterministic-simulation check.

exit 0  property held on everything explored (known findings are printed, not failed)
exit 1  + "VIOLATION property=<id> replay=<path>"  minimised, reproduced violation
exit 3  + "HARNESS-ERROR ..."  the harness itself failed (never reported as a violation)
"""
from __future__ import annotations

import argparse
import json
import os
import re
import subprocess
import sys
import time

HERE = os.path.dirname(os.path.abspath(__file__))
if HERE not in sys.path:
    sys.path.insert(0, HERE)

# fixed hash seed => set/dict-of-str iteration inside dependencies cannot differ between
# the batch, the shrinker and a replay in a fresh interpreter
if os.environ.get("PYTHONHASHSEED") is None:
    os.environ["PYTHONHASHSEED"] = "0"
    os.execv(sys.executable, [sys.executable, *sys.argv])

from sim import runner  # noqa: E402
from sim.shrink import shrink  # noqa: E402

DEFAULT_SEED = 20260926
REPLAYS = os.environ.get("VERIF_REPLAY_DIR") or os.path.join(HERE, "replays")
QUICK_RUNS = {
    "C01": 40000,
    "C12": 30000,
    "C13": 30000,
    "C02": 30000,
    "C03": 30000,
    "C04": 30000,
    "C18": 30000,
    "C19": 30000,
    "C05": 30000,
    "C06": 30000,
    "C07": 30000,
    "C14": 30000,
    "C08": 30000,
    "C09": 30000,
    "C10": 30000,
    "C11": 30000,
    "C15": 30000,
}
THOROUGH_BATCH = 24000
MAX_REPORT = 4


def load_known() -> list[dict]:
    p = os.path.join(HERE, "known_findings.json")
    if not os.path.exists(p):
        return []
    with open(p) as f:
        return json.load(f).get("findings", [])


def match_known(known: list[dict], prop: str, rule: str, key: str) -> dict | None:
    for k in known:
        if k.get("status") != "known" or k.get("property") != prop:
            continue
        if k.get("rule") != rule:
            continue
        kk = k.get("key", "")
        if kk == key or (kk.endswith("*") and key.startswith(kk[:-1])):
            return k
    return None


def slug(s: str) -> str:
    return re.sub(r"[^A-Za-z0-9_.-]+", "_", s)[:60]


def replay_file(path: str, prop: str, quiet: bool = False) -> int:
    with open(path) as f:
        rec = json.load(f)
    if rec.get("static"):
        w = runner.world(prop)
        hits = [x for x in w.static_checks(prop) if x["rule"] == rec["rule"] and x["key"] == rec["key"]]
        print("DIGEST static")
        if hits:
            print(f"VIOLATION property={prop} replay={path}")
            return 1
        print("NOT-REPRODUCED")
        return 0
    plan = rec["plan"]
    for p in rec.get("prelude") or ():
        runner.execute(p)
    res = runner.execute(plan, want_digest=True)
    rel = runner.relevant(res["violations"], prop)
    hit = [x for x in rel if x["rule"] == rec.get("rule") and x["key"] == rec.get("key")]
    if not quiet:
        for x in rel:
            print(f"  rule={x['rule']} key={x['key']} :: {x['msg']}")
    print(f"DIGEST {res['digest']}")
    if hit:
        print(f"VIOLATION property={prop} replay={path}")
        return 1
    print("NOT-REPRODUCED")
    return 0


def _exec_full(seq: list) -> dict:
    res: dict = {}
    for p in seq[:-1]:
        runner.execute(p)
    res = runner.execute(seq[-1], want_digest=True, want_trace=True)
    return res


def fresh_replay(path: str, prop: str) -> tuple[int, str]:
    env = dict(os.environ)
    env["PYTHONHASHSEED"] = "7"
    p = subprocess.run(
        [sys.executable, os.path.join(HERE, "check.py"), prop, "--replay", path, "--quiet"],
        capture_output=True,
        text=True,
        env=env,
        timeout=900,
    )
    m = re.search(r"DIGEST (\w+)", p.stdout)
    return p.returncode, (m.group(1) if m else "")


def digests_of(prop: str, tier: str, seed: int, indices: list[int]) -> dict[int, str]:
    out = {}
    for i in indices:
        plan = runner.make_plan(seed, prop, tier, i)
        res = runner.execute(plan, want_digest=True)
        out[i] = res["digest"]
    return out


def determinism_sample(prop: str, tier: str, seed: int, n_runs: int, k: int) -> dict:
    step = max(1, n_runs // k)
    indices = list(range(0, n_runs, step))[:k]
    a = digests_of(prop, tier, seed, indices)
    b = digests_of(prop, tier, seed, indices)
    env = dict(os.environ)
    env["PYTHONHASHSEED"] = "12345"
    p = subprocess.run(
        [
            sys.executable,
            os.path.join(HERE, "check.py"),
            prop,
            "--tier",
            tier,
            "--digests",
            ",".join(map(str, indices)),
        ],
        capture_output=True,
        text=True,
        env={**env, "VERIF_SEED": str(seed)},
        timeout=300,
    )
    c = {}
    for line in p.stdout.splitlines():
        m = re.match(r"DIGEST-OF (\d+) (\w+)", line)
        if m:
            c[int(m.group(1))] = m.group(2)
    bad = [i for i in indices if not (a[i] == b[i] == c.get(i))]
    return {"sampled": len(indices), "mismatches": bad, "ok": not bad}


def main() -> int:
    ap = argparse.ArgumentParser()
    ap.add_argument("prop")
    ap.add_argument("--tier", default=os.environ.get("VERIF_TIER", "quick"))
    ap.add_argument("--runs", type=int, default=None)
    ap.add_argument("--workers", type=int, default=int(os.environ.get("VERIF_WORKERS", "16")))
    ap.add_argument("--replay", default=None)
    ap.add_argument("--quiet", action="store_true")
    ap.add_argument("--digests", default=None)
    ap.add_argument("--budget-s", type=float, default=float(os.environ.get("VERIF_BUDGET_S", "480")))
    ap.add_argument("--no-evidence", action="store_true")
    ap.add_argument("--keep-going", action="store_true", help="do not stop thorough tier at first violation")
    args = ap.parse_args()
    prop = args.prop
    tier = args.tier if args.tier in ("quick", "thorough") else "quick"
    seed = int(os.environ.get("VERIF_SEED", DEFAULT_SEED))

    if args.replay:
        return replay_file(args.replay, prop, args.quiet)
    if args.digests:
        for i, d in digests_of(prop, tier, seed, [int(x) for x in args.digests.split(",")]).items():
            print(f"DIGEST-OF {i} {d}")
        return 0

    t0 = time.time()
    print(f"SEED {seed} property={prop} tier={tier}")
    runner.warmup()
    known = load_known()
    merged = None
    total_runs = 0
    if tier == "quick":
        n = args.runs or QUICK_RUNS.get(prop, 4000)
        merged = runner.run_batch(prop, tier, seed, n, args.workers)
        total_runs = n
    else:
        batch = args.runs or THOROUGH_BATCH
        start = 0
        while True:
            m = runner.run_batch(prop, tier, seed, batch, args.workers, start_index=start)
            start += batch
            total_runs += batch
            merged = runner.merge_into(merged or {}, m)
            unknown = [
                k for k in merged["viol_count"] if not match_known(known, prop, k[0], k[1])
            ]
            if merged["errors"] or (unknown and not args.keep_going):
                break
            if time.time() - t0 > args.budget_s:
                break
    assert merged is not None
    wall_runs = time.time() - t0

    # ---------------------------------------------------------------- schedule-free table
    w = runner.world(prop)
    static_viol = w.static_checks(prop) if hasattr(w, "static_checks") else []
    merged["static_checked"] = hasattr(w, "static_checks")
    merged["static_violations"] = static_viol

    # ---------------------------------------------------------------- harness errors
    if merged["errors"]:
        e = merged["errors"][0]
        print(f"HARNESS-ERROR property={prop} runs_failed={len(merged['errors'])} first_index={e['index']} {e['error']}")
        print(e["tb"])
        write_evidence(prop, tier, seed, merged, total_runs, time.time() - t0, 0, [], None, harness_error=True, args=args)
        return 3

    # ---------------------------------------------------------------- violations
    groups: dict[tuple, list[dict]] = {}
    for vrec in merged["viol"]:
        groups.setdefault((vrec["rule"], vrec["key"]), []).append(vrec)
    reported = 0
    unreproduced: list[str] = []
    known_hit: dict[str, dict] = {}
    exit_code = 0
    viol_lines = []
    for (rule, key), recs in sorted(groups.items()):
        kf = match_known(known, prop, rule, key)
        if kf is not None:
            known_hit[f"{rule}|{kf.get('key')}"] = kf
            continue
        if reported >= MAX_REPORT:
            continue
        rec = recs[0]
        plan = rec["plan"]

        def fails(seq: list, rule: str = rule, key: str = key) -> bool:
            """Hermetic: a child forked from this pristine process runs the sequence."""
            r = runner.hermetic(runner.execute_sequence, seq)
            return any(x["rule"] == rule and x["key"] == key for x in r["violations"])

        prelude: list = []
        if not fails([plan]):
            # the violation depends on process-global state left behind by earlier runs of
            # the same chunk: reproduce it with a prelude of those plans, then minimise it
            idx = plan["_prov"]["index"]
            prelude = [
                runner.make_plan(plan["_prov"]["verif_seed"], prop, plan["_prov"]["tier"], i)
                for i in range(rec["chunk_start"], idx)
            ]
            if not fails(prelude + [plan]):
                # depends on something outside the plans (in practice: which memory addresses
                # the allocator hands out).  Never reported as a VIOLATION - a violation is
                # only what replays.  Other groups of this run are still examined; if none
                # of them can be reported either, the run ends as a harness error (exit 3).
                unreproduced.append(
                    f"violation {rule}/{key} at index {idx} does not reproduce in a fresh process even with its chunk prelude ({len(prelude)} runs)"
                )
                continue
            # ddmin on the prelude
            chunk = max(1, len(prelude) // 2)
            t_end = time.time() + 60
            while chunk >= 1 and prelude and time.time() < t_end:
                i = 0
                while i < len(prelude) and time.time() < t_end:
                    cand = prelude[:i] + prelude[i + chunk :]
                    if fails(cand + [plan]):
                        prelude = cand
                    else:
                        i += chunk
                if chunk == 1:
                    break
                chunk //= 2

        w = runner.world(prop, plan["world"])
        valid_plan = getattr(w, "valid_plan", None)

        def still_fails(cand: dict) -> bool:
            # a shrunk plan must still be one whose expectations mean something (e.g. a
            # component-world plan in which somebody still publishes what others wait for)
            if valid_plan is not None and not valid_plan(cand, plan):
                return False
            return fails(prelude + [cand])

        small, used = shrink(plan, still_fails, simplest=getattr(w, "SIMPLEST", None), max_runs=300 if not prelude else 60)
        res = runner.hermetic(_exec_full, prelude + [small])
        msg = next((x["msg"] for x in res["violations"] if x["rule"] == rule and x["key"] == key), rec["msg"])
        os.makedirs(os.path.join(REPLAYS, prop), exist_ok=True)
        path = os.path.join(REPLAYS, prop, f"{slug(rule)}-{slug(key)}-{plan['_prov']['index']}.json")
        with open(path, "w") as f:
            json.dump(
                {
                    "property": prop,
                    "rule": rule,
                    "key": key,
                    "msg": msg,
                    "digest": res["digest"],
                    "plan": small,
                    "prelude": prelude,
                    "prelude_note": "plans executed first in the same process (the violation depends on process-global state they leave behind)" if prelude else None,
                    "shrink_runs": used,
                    "original_plan": plan,
                    "trace": res.get("trace"),
                },
                f,
                indent=1,
                default=str,
            )
        rc1, d1 = fresh_replay(path, prop)
        rc2, d2 = fresh_replay(path, prop)
        if rc1 != 1 or rc2 != 1 or d1 != d2 or d1 != res["digest"]:
            unreproduced.append(
                f"violation {rule}/{key} did not replay deterministically "
                f"(rc={rc1},{rc2} digests={d1[:12]},{d2[:12]},{res['digest'][:12]}) file={path}"
            )
            continue
        print(f"  {rule} [{key}] x{merged['viol_count'][(rule, key)]}: {msg}")
        line = f"VIOLATION property={prop} replay={path}"
        print(line)
        viol_lines.append(line)
        reported += 1
        exit_code = 1

    for sv in static_viol:
        os.makedirs(os.path.join(REPLAYS, prop), exist_ok=True)
        path = os.path.join(REPLAYS, prop, f"{slug(sv['rule'])}-{slug(sv['key'])}-static.json")
        with open(path, "w") as f:
            json.dump({"property": prop, "static": True, **sv}, f, indent=1)
        print(f"  {sv['rule']} [{sv['key']}] (schedule-free table): {sv['msg']}")
        print(f"VIOLATION property={prop} replay={path}")
        exit_code = 1
        reported += 1

    if unreproduced and exit_code == 0:
        for u in unreproduced:
            print(f"HARNESS-ERROR property={prop} {u}")
        return 3
    for u in unreproduced:
        print(f"NOTE property={prop} not reported (no exact replay): {u}")

    for kf in known_hit.values():
        print(f"KNOWN-FINDING: property={prop} {kf['what']}")

    # ---------------------------------------------------------------- determinism sample
    det = None
    if tier == "quick" and exit_code == 0:
        det = determinism_sample(prop, tier, seed, total_runs, 12)
        if not det["ok"]:
            print(f"HARNESS-ERROR property={prop} nondeterministic digests at indices {det['mismatches']}")
            return 3

    write_evidence(prop, tier, seed, merged, total_runs, time.time() - t0, reported, list(known_hit.values()), det, args=args, wall_runs=wall_runs)
    print(
        f"DONE property={prop} runs={merged['runs']} distinct_interleavings={len(merged['nontrivial_sigs'])} "
        f"violations={reported} known={len(known_hit)} wall={time.time() - t0:.1f}s"
    )
    return exit_code


def write_evidence(prop, tier, seed, merged, total_runs, wall, nviol, known_hit, det, harness_error=False, args=None, wall_runs=None):
    if args is not None and args.no_evidence:
        return
    w = runner.world(prop)
    wall_runs = wall_runs or wall
    runs = merged["runs"]
    samples = []
    for s in merged["samples"][:2]:
        s = dict(s)
        samples.append(s)
    cov = {
        "evaluations": runs,
        "distinct_nontrivial": len(merged["nontrivial_sigs"]),
        "rule": (
            "one evaluation = one simulated run of a seeded plan (workload + schedule + faults) on the real asphalt code "
            "under the virtual-time asyncio loop or the seeded trio scheduler; distinct = distinct (backend, interleaving "
            "signature) where the signature hashes the sequence of task switches among workload/asphalt tasks; non-trivial = "
            "at least two tasks interleaved or at least one fault actually fired"
        ),
        "samples": samples or [{"note": "no non-trivial sample"}],
        "runs_per_hour": int(runs / max(wall_runs, 1e-6) * 3600),
        "seeds_per_hour": int(runs / max(wall_runs, 1e-6) * 3600),
        "simulated_seconds": round(merged["vtime"], 3),
        "scheduler_steps": merged["steps"],
        "per_backend": dict(merged["backend"]),
        "faults_fired": dict(merged["faults"]),
        "reach_probes": dict(merged["probes"]),
        "distinct_final_states": len(merged["finals"]),
        "distinct_interleavings_all": len(merged["sigs"]),
        "deadlocks": merged["deadlocks"],
        "step_limit_runs": merged["step_limits"],
        "violation_counts": {f"{k[0]}|{k[1]}": v for k, v in merged["viol_count"].items()},
        "known_findings_matched": [k.get("what") for k in known_hit],
        "determinism_selftest": det,
        "real_vs_stub": getattr(w, "REAL_VS_STUB", None)
        or {
            "real": ["asphalt.core (all modules)", "anyio", "asyncio Task/Future/Handle", "trio scheduler/nurseries"],
            "stub": ["asyncio event loop clock/selector/signal table (SimEventLoop)", "trio clock (MockClock autojump)"],
            "seeded": ["trio run-queue batch order", "workload pauses and fault injection steps"],
        },
        "harness_error": harness_error,
        "schedule_free_table": {
            "checked": merged.get("static_checked", False),
            "violations": merged.get("static_violations", []),
            "note": "decoration-time rejection table (C19 only); pure, not counted as simulated coverage",
        },
    }
    ev = {
        "property_id": prop,
        "tier": tier,
        "seed": seed,
        "level": "exploration",
        "coverage": cov,
        "assumptions": [
            "seeded sampling, not enumeration: a clean batch is evidence, not proof",
            "asyncio runs explore only FIFO-legal schedules (varying sleep lengths and fault instants); arbitrary batch order is explored on trio",
            "generated callbacks/components are the only users; behaviours the generator cannot express are not explored",
        ],
        "wall_s": round(wall, 2),
        "violations": nviol,
    }
    os.makedirs(os.path.join(HERE, "evidence"), exist_ok=True)
    with open(os.path.join(HERE, "evidence", f"{prop}.json"), "w") as f:
        json.dump(ev, f, indent=1, default=str)


if __name__ == "__main__":
    try:
        rc = main()
    except SystemExit:
        raise
    except BaseException as e:  # noqa: BLE001
        import traceback

        traceback.print_exc()
        print(f"HARNESS-ERROR {type(e).__name__}: {e}")
        rc = 3
    sys.exit(rc)
