#!/bin/bash
# quicksoak.sh <seed...> : quick tier of every claimed property for each seed (what `vp check` runs)
cd "$(dirname "$0")/.."
for seed in "$@"; do
  for p in C01 C02 C03 C04 C05 C06 C07 C08 C09 C10 C11 C12 C13 C14 C15 C18 C19; do
    out=$(VERIF_SEED=$seed VERIF_WORKERS=${VERIF_WORKERS:-16} timeout 900 /venv/bin/python check.py $p --tier quick --no-evidence 2>&1)
    rc=$?
    if [ $rc -ne 0 ]; then echo "seed=$seed $p rc=$rc"; echo "$out" | grep -E "VIOLATION|HARNESS|^  C[0-9]+\." | cut -c1-300; fi
  done
  echo "seed=$seed done"
done
