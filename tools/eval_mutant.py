#!/venv/bin/python
"""eval_mutant.py <dir-with-patch.diff+demo.py> <property> [--keep] [--props C01,C02]

Confirms a candidate breaking change the way the brief demands (in a scratch copy of /repo
under /tmp, removed afterwards): patch applies; the 287 baseline tests still pass; demo.py
passes without and fails with the change.  Then runs the property's quick check against the
patched copy (VERIF_REPO_SRC) and reports CAUGHT/MISSED with the rules that fired.
With --keep the change is stored as /verif/seeded/<name>/ (patch.diff, demo.py, meta.json).
"""
from __future__ import annotations

import json
import os
import re
import shutil
import subprocess
import sys
import tempfile

HERE = os.path.dirname(os.path.dirname(os.path.abspath(__file__)))
PY = "/venv/bin/python"
BASE_FAIL = {
    "test_run_bad_override",
    "test_run_missing_root_component_config",
    "test_run_missing_root_component_type",
    "test_run_bad_path",
}


def sh(cmd, **kw):
    return subprocess.run(cmd, capture_output=True, text=True, **kw)


def main() -> int:
    args = sys.argv[1:]
    keep = "--keep" in args
    if keep:
        args.remove("--keep")
    notest = "--notest" in args
    if notest:
        args.remove("--notest")
    props = None
    if "--props" in args:
        i = args.index("--props")
        props = args[i + 1].split(",")
        del args[i : i + 2]
    src_dir, prop = args[0], args[1]
    props = props or [prop]
    name = os.path.basename(os.path.normpath(src_dir))
    patch = os.path.join(src_dir, "patch.diff")
    demo = os.path.join(src_dir, "demo.py")
    tmp = tempfile.mkdtemp(prefix="verif_eval_")
    report: dict = {"name": name, "property": prop}
    try:
        work = os.path.join(tmp, "repo")
        os.makedirs(work)
        shutil.copytree("/repo/src", os.path.join(work, "src"))
        shutil.copytree("/repo/tests", os.path.join(work, "tests"))
        shutil.copy("/repo/pyproject.toml", work)
        env = dict(os.environ, PYTHONPATH=os.path.join(work, "src"))
        # demo on pristine
        r0 = sh([PY, demo], env=env, cwd=work, timeout=300)
        report["demo_pristine_rc"] = r0.returncode
        r = sh(["patch", "-p1", "-d", work, "-i", os.path.abspath(patch)])
        report["patch_applies"] = r.returncode == 0
        if r.returncode != 0:
            report["patch_out"] = r.stdout[-400:]
            print(json.dumps(report, indent=1))
            return 2
        r1 = sh([PY, demo], env=env, cwd=work, timeout=300)
        report["demo_patched_rc"] = r1.returncode
        report["demo_patched_tail"] = (r1.stdout + r1.stderr)[-300:]
        if not notest:
            t = sh(
                [PY, "-m", "pytest", "-q", "-p", "no:cacheprovider"],
                env=env,
                cwd=work,
                timeout=900,
            )
            tail = t.stdout[-600:]
            failed = set(re.findall(r"FAILED tests/\S+::(\w+)", t.stdout))
            report["tests_rc"] = t.returncode
            report["tests_failed"] = sorted(failed)
            m = re.search(r"(\d+) passed", t.stdout)
            report["tests_passed"] = int(m.group(1)) if m else 0
            report["tests_ok"] = failed == BASE_FAIL and report["tests_passed"] >= 287
            if not report["tests_ok"]:
                report["tests_tail"] = tail
        results = []
        for p in props:
            envc = dict(os.environ, VERIF_REPO_SRC=os.path.join(work, "src"), VERIF_REPLAY_DIR=os.path.join(tmp, "replays"))
            c = sh([PY, os.path.join(HERE, "check.py"), p, "--no-evidence"], env=envc, cwd=HERE, timeout=1800)
            rules = sorted(set(re.findall(r"^\s+(C\d+\.\w+ \[[^\]]*\])", c.stdout, re.M)))
            results.append({"property": p, "rc": c.returncode, "rules": rules, "tail": c.stdout[-400:] if c.returncode not in (0, 1) else ""})
        report["checks"] = results
        report["caught"] = any(x["rc"] == 1 for x in results)
        print(json.dumps(report, indent=1))
        valid = report["demo_pristine_rc"] == 0 and report["demo_patched_rc"] != 0 and (notest or report.get("tests_ok"))
        if keep and valid:
            dest = os.path.join(HERE, "seeded", name)
            os.makedirs(dest, exist_ok=True)
            shutil.copy(patch, os.path.join(dest, "patch.diff"))
            shutil.copy(demo, os.path.join(dest, "demo.py"))
            notes = os.path.join(src_dir, "notes.md")
            needs = open(notes).read() if os.path.exists(notes) else ""
            meta = {
                "id": name,
                "property": prop,
                "properties": props,
                "needs_to_manifest": needs,
                "confirmed": {
                    "patch_applies": True,
                    "baseline_tests_pass_with_change": report.get("tests_ok"),
                    "demo_passes_without": True,
                    "demo_fails_with": True,
                    "how": "tools/eval_mutant.py: scratch copy of /repo under /tmp, PYTHONPATH=<copy>/src; full pytest run, failed set must equal the 4 baseline test_cli failures; demo.py before/after; check.py <prop> with VERIF_REPO_SRC=<copy>/src",
                },
                "check_results": results,
                "caught": report["caught"],
            }
            json.dump(meta, open(os.path.join(dest, "meta.json"), "w"), indent=1)
        return 0 if report["caught"] else 1
    finally:
        shutil.rmtree(tmp, ignore_errors=True)


if __name__ == "__main__":
    sys.exit(main())
