#!/venv/bin/python
"""robustness.py [seed ...] : for every kept seeded change, run the owning quick check under several
VERIF_SEED values against a patched scratch copy and report how often it is caught."""
import json, os, re, shutil, subprocess, sys, tempfile
HERE = os.path.dirname(os.path.dirname(os.path.abspath(__file__)))
seeds = [int(x) for x in sys.argv[1:] if x.isdigit()] or [1, 2, 3]
only = [x for x in sys.argv[1:] if not x.isdigit()]
root = os.path.join(HERE, "seeded")
for d in sorted(os.listdir(root)):
    if only and d not in only:
        continue
    meta = json.load(open(os.path.join(root, d, "meta.json")))
    prop = meta["property"]
    tmp = tempfile.mkdtemp(prefix="verif_rob_")
    try:
        shutil.copytree("/repo/src", os.path.join(tmp, "src"))
        r = subprocess.run(["patch", "-p1", "-d", tmp, "-i", os.path.join(root, d, "patch.diff")], capture_output=True, text=True)
        if r.returncode:
            print(d, "PATCH-FAILED"); continue
        res = []
        for sd in seeds:
            env = dict(os.environ, VERIF_REPO_SRC=os.path.join(tmp, "src"), VERIF_SEED=str(sd), VERIF_REPLAY_DIR=os.path.join(tmp, "replays"))
            c = subprocess.run(["/venv/bin/python", os.path.join(HERE, "check.py"), prop, "--no-evidence"], capture_output=True, text=True, env=env, cwd=HERE, timeout=1800)
            res.append(c.returncode)
        print(d, prop, res, "OK" if all(x == 1 for x in res) else "WEAK", flush=True)
    finally:
        shutil.rmtree(tmp, ignore_errors=True)
