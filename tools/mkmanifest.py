#!/usr/bin/env python3
"""Regenerate MANIFEST.json from the table below (keeps it valid at all times)."""
import json, os
HERE = os.path.dirname(os.path.dirname(os.path.abspath(__file__)))
CLAIMED = {
 "C01": ("ctxlife", "6.C01", "teardown stack model (exactly once, LIFO, non-overlap, exception plumbing) over seeded runs with raising callbacks, cancellation at seeded steps, ambient exceptions"),
 "C12": ("ctxlife", "6.C12", "per-task lexical stack model of current_context() over concurrent nested blocks, service tasks, exceptions and cancellation"),
 "C13": ("ctxlife", "6.C13", "state x operation matrix probed at seeded points (before entry, open, inside teardown callbacks, after clean/failing/cancelled exit), open-child exit"),
 "C02": ("resources", "6.C02", "reference model (per-context static/factory tables, snapshot at construction) checked against complete get_resources views of every context after every operation and every lookup route"),
 "C03": ("resources", "6.C03", "same model: conflicts predicted exactly, per-key stability over the whole lookup history, failure atomicity via views, teardown-callback and event logs"),
 "C04": ("resources", "6.C04", "history-based generation model: at most one successful factory invocation per (factory, context), racing lookups from concurrent tasks, sync-on-async, raising and cancelled generations"),
 "C18": ("resources", "6.C18", "a listener on every context; per-context event sequence must equal the model's publication list"),
 "C19": ("resources", "6.C19", "catalogue of @inject functions called as one more lookup route from arbitrary tasks/contexts and compared with the model's explicit lookups; decoration-time rejections as a separate schedule-free table"),
}
NA = [
 {"property_id": "C16", "reason": "pure function from (YAML files, --set, --service, ASPHALT_SERVICE) to run_application arguments; no task, timer, fault or interleaving in it - not a simulation target"},
 {"property_id": "C17", "reason": "merge_config is a pure function of its two arguments; no schedule, clock or fault dimension - not a simulation target"},
]
ALL = [f"C{i:02d}" for i in range(1, 20)]
extra = os.path.join(HERE, "tools", "claimed_extra.json")
if os.path.exists(extra):
    CLAIMED.update({k: tuple(v) for k, v in json.load(open(extra)).items()})
checks = []
for pid in ALL:
    if pid not in CLAIMED:
        continue
    world, ref, text = CLAIMED[pid]
    checks.append({
        "property_id": pid,
        "quick_cmd": f"timeout 600 /venv/bin/python check.py {pid} --tier quick",
        "thorough_cmd": f"timeout 3000 /venv/bin/python check.py {pid} --tier thorough",
        "evidence_file": f"/verif/evidence/{pid}.json",
        "replay_cmd_template": f"/venv/bin/python check.py {pid} --replay {{path}}",
        "engine": "detsim",
        "level_claimed": {
            "category": "exploration",
            "text": "Seeded search over schedules and fault sequences of the real asphalt code under a simulator that owns clock and scheduling; oracle: " + text + ". A clean batch is evidence, not proof; every violation is minimised and replayed from a plan file.",
            "design_ref": "DESIGN.md section " + ref,
        },
        "level_note": "Trusted: the simulator (sim/aio_loop.py virtual-time asyncio loop preserving FIFO ready order; trio's own deterministic-scheduling seam with MockClock), anyio/asyncio/trio themselves, the world's reference model and generator. Sampling bounds per run are in DESIGN.md section 6.",
        "technique": "deterministic simulation with fault injection: seeded plans (workload + schedule + faults) run on the real code under a virtual-time asyncio loop / seeded trio scheduler; reference-model oracle over the recorded history; ddmin-shrunk replay files",
    })
claimed = {c["property_id"] for c in checks}
na = list(NA) + [
    {"property_id": p, "reason": "not claimed yet: its simulation world is still being built (see DESIGN.md section 6); will be claimed once its check exists"}
    for p in ALL if p not in claimed and p not in {n["property_id"] for n in NA}
]
m = {
 "version": 1,
 "setup_cmd": "/venv/bin/python -c \"import asphalt.core, anyio, trio; print(asphalt.core.__file__)\"",
 "hooks": {
  "guard": "ASPHALT_VERIF_SIM",
  "enable": "no hook in /repo is needed: the simulator enters through anyio's loop_factory (asyncio) and trio's clock/instrument/deterministic-scheduling seams; checks import /repo/src directly (editable install), so they always run the current working tree",
  "baseline_off_cmd": "cd /repo && /venv/bin/python -m pytest -ra -q -p no:cacheprovider --timeout=900 --continue-on-collection-errors",
  "source_commits": [],
  "add_only": True,
 },
 "engines": [{"name": "detsim", "path": "/verif/sim", "serves_properties": sorted(claimed), "kind_free_text": "deterministic simulation with fault injection (own virtual-time asyncio event loop + seeded trio scheduler, seeded plan generator, reference-model oracles, ddmin shrinker, replay files)"}],
 "checks": checks,
 "not_applicable": na,
 "notes": "fix: commits in /repo repair genuine defects found by these checks (see known_findings.json, DESIGN.md section 8).",
}
json.dump(m, open(os.path.join(HERE, "MANIFEST.json"), "w"), indent=1)
print("claimed", sorted(claimed))
