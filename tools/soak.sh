#!/bin/bash
# soak.sh <budget_s> <seed...> : thorough tier of every claimed property for each seed; prints one line per check
budget=$1; shift
cd "$(dirname "$0")/.."
for seed in "$@"; do
  for p in C01 C02 C03 C04 C05 C06 C07 C08 C09 C10 C11 C12 C13 C14 C15 C18 C19; do
    out=$(VERIF_SEED=$seed VERIF_BUDGET_S=$budget VERIF_WORKERS=${VERIF_WORKERS:-16} timeout 3000 /venv/bin/python check.py $p --tier thorough --no-evidence 2>&1)
    rc=$?
    echo "seed=$seed $p rc=$rc $(echo "$out" | grep -E 'DONE|HARNESS' | tail -1 | cut -c1-160)"
    echo "$out" | grep -E "VIOLATION|^  C[0-9]+\." | cut -c1-300
  done
done
